package simrt

// WaitList is the queue of goroutines blocked on a simulated object.
type WaitList struct {
	q []*waiter
}

type waiter struct {
	g     *G
	woken bool
}

// Ticket identifies an enqueued waiter.
type Ticket = *waiter

// Enqueue registers the running goroutine as a waiter without blocking yet.
func (w *WaitList) Enqueue(s *Sim) Ticket {
	t := &waiter{g: s.cur}
	w.q = append(w.q, t)
	return t
}

// Block blocks until the ticket has been woken.
func (w *WaitList) Block(s *Sim, t Ticket, on string) {
	for !t.woken {
		s.block(t.g, on)
	}
}

// Wait enqueues and blocks.
func (w *WaitList) Wait(s *Sim, on string) {
	w.Block(s, w.Enqueue(s), on)
}

// WakeAll makes every waiter runnable.
func (w *WaitList) WakeAll(s *Sim) {
	for _, t := range w.q {
		t.woken = true
		s.wake(t.g)
	}
	w.q = nil
}

// WakeOne makes one waiter, chosen by the choice source, runnable.
func (w *WaitList) WakeOne(s *Sim) {
	if len(w.q) == 0 {
		return
	}
	i := s.sched.Draw(len(w.q))
	t := w.q[i]
	w.q = append(w.q[:i:i], w.q[i+1:]...)
	t.woken = true
	s.wake(t.g)
}

// Len is the number of waiters.
func (w *WaitList) Len() int { return len(w.q) }

// Event is a manual-reset event for harnesses: goroutines Wait until Set.
type Event struct {
	set bool
	w   WaitList
}

// IsSet reports whether the event is set.
func (e *Event) IsSet() bool { return e.set }

// Wait blocks the running goroutine until the event is set.
func (e *Event) Wait(site string) {
	s := Active()
	Yield(site)
	for !e.set {
		e.w.Wait(s, "event:"+site)
	}
}

// Set sets the event and wakes all waiters. It may be called from the
// scheduler's quiescence hook or from a simulated goroutine.
func (e *Event) Set() {
	e.set = true
	if s := Active(); s != nil {
		e.w.WakeAll(s)
	}
}
