// Package satomic is a drop-in for the function API of sync/atomic that adds
// a scheduling point ahead of every operation.
package satomic

import (
	"sync/atomic"
	"unsafe"

	"github.com/goplus/xgo/zsim/simrt"
)

type Value = atomic.Value

func AddInt32(addr *int32, delta int32) int32     { simrt.Yield("atomic"); return atomic.AddInt32(addr, delta) }
func AddInt64(addr *int64, delta int64) int64     { simrt.Yield("atomic"); return atomic.AddInt64(addr, delta) }
func AddUint32(addr *uint32, delta uint32) uint32 { simrt.Yield("atomic"); return atomic.AddUint32(addr, delta) }
func AddUint64(addr *uint64, delta uint64) uint64 { simrt.Yield("atomic"); return atomic.AddUint64(addr, delta) }
func LoadInt32(addr *int32) int32                 { simrt.Yield("atomic"); return atomic.LoadInt32(addr) }
func LoadInt64(addr *int64) int64                 { simrt.Yield("atomic"); return atomic.LoadInt64(addr) }
func LoadUint32(addr *uint32) uint32              { simrt.Yield("atomic"); return atomic.LoadUint32(addr) }
func LoadUint64(addr *uint64) uint64              { simrt.Yield("atomic"); return atomic.LoadUint64(addr) }
func StoreInt32(addr *int32, v int32)             { simrt.Yield("atomic"); atomic.StoreInt32(addr, v) }
func StoreInt64(addr *int64, v int64)             { simrt.Yield("atomic"); atomic.StoreInt64(addr, v) }
func StoreUint32(addr *uint32, v uint32)          { simrt.Yield("atomic"); atomic.StoreUint32(addr, v) }
func StoreUint64(addr *uint64, v uint64)          { simrt.Yield("atomic"); atomic.StoreUint64(addr, v) }
func SwapInt32(addr *int32, v int32) int32        { simrt.Yield("atomic"); return atomic.SwapInt32(addr, v) }
func SwapInt64(addr *int64, v int64) int64        { simrt.Yield("atomic"); return atomic.SwapInt64(addr, v) }
func CompareAndSwapInt32(addr *int32, o, n int32) bool {
	simrt.Yield("atomic")
	return atomic.CompareAndSwapInt32(addr, o, n)
}
func CompareAndSwapInt64(addr *int64, o, n int64) bool {
	simrt.Yield("atomic")
	return atomic.CompareAndSwapInt64(addr, o, n)
}
func CompareAndSwapUint32(addr *uint32, o, n uint32) bool {
	simrt.Yield("atomic")
	return atomic.CompareAndSwapUint32(addr, o, n)
}
func LoadPointer(addr *unsafe.Pointer) unsafe.Pointer { simrt.Yield("atomic"); return atomic.LoadPointer(addr) }
func StorePointer(addr *unsafe.Pointer, v unsafe.Pointer) {
	simrt.Yield("atomic")
	atomic.StorePointer(addr, v)
}
