// Package simrt is the deterministic simulation runtime that is linked into an
// instrumented scratch copy of the code under test. It must stay within the
// Go 1.18 language level (the scratch module keeps /repo's `go 1.18` line).
package simrt

// Source is the single origin of every nondeterministic decision of a run.
//
// In generate mode the values come from a SplitMix64 stream seeded from one
// integer and every draw is recorded; in replay mode the values are read back
// from a recorded trace (draws past its end yield 0, the "simplest" choice).
// Two independent traces exist per run: the plan trace (workload, knobs,
// fault plan — drawn before the run starts) and the schedule trace (which
// goroutine runs next, select polling order, wake choices, map orders, short
// I/O lengths — drawn while the run proceeds). Keeping them apart lets the
// shrinker reduce the schedule without scrambling the workload.
type Source struct {
	state  uint64
	replay []int
	isRep  bool
	pos    int
	rec    []int
}

// NewSource returns a generating source.
func NewSource(seed uint64) *Source {
	return &Source{state: seed*0x9E3779B97F4A7C15 + 0x1234567}
}

// NewReplay returns a source that replays trace.
func NewReplay(trace []int) *Source {
	return &Source{replay: trace, isRep: true}
}

func (s *Source) next() uint64 {
	s.state += 0x9E3779B97F4A7C15
	z := s.state
	z = (z ^ (z >> 30)) * 0xBF58476D1CE4E5B9
	z = (z ^ (z >> 27)) * 0x94D049BB133111EB
	return z ^ (z >> 31)
}

// Replaying reports whether the source replays a trace.
func (s *Source) Replaying() bool { return s.isRep }

// Trace returns the recorded draws.
func (s *Source) Trace() []int { return s.rec }

func (s *Source) record(v int) int {
	s.rec = append(s.rec, v)
	return v
}

func (s *Source) fromReplay(n int) int {
	v := 0
	if s.pos < len(s.replay) {
		v = s.replay[s.pos]
	}
	s.pos++
	if v < 0 {
		v = 0
	}
	if n > 0 && v >= n {
		v = v % n
	}
	return v
}

// Draw returns a value in [0,n), uniformly in generate mode. n<=1 yields 0
// and still consumes a position so traces keep their alignment.
func (s *Source) Draw(n int) int {
	if s.isRep {
		return s.record(s.fromReplay(n))
	}
	if n <= 1 {
		return s.record(0)
	}
	return s.record(int(s.next() % uint64(n)))
}

// Biased returns 0 with probability p0 (in 1/1000) and otherwise a uniform
// value in [1,n).
func (s *Source) Biased(n int, p0 int) int {
	if s.isRep {
		return s.record(s.fromReplay(n))
	}
	if n <= 1 {
		return s.record(0)
	}
	if int(s.next()%1000) < p0 {
		return s.record(0)
	}
	return s.record(1 + int(s.next()%uint64(n-1)))
}

// Given records an index computed by a scheduling strategy (generate mode) or
// returns the replayed one.
func (s *Source) Given(n int, computed func() int) int {
	if s.isRep {
		return s.record(s.fromReplay(n))
	}
	return s.record(computed())
}

// Raw returns raw PRNG bits without recording; only strategies call it (their
// result is recorded through Given).
func (s *Source) Raw() uint64 { return s.next() }

// Chance is Biased(2, 1000-permille)==1: true with probability permille/1000.
func (s *Source) Chance(permille int) bool {
	return s.Biased(2, 1000-permille) == 1
}

// Perm returns a permutation of [0,n): each position is one recorded draw, and
// an all-zero trace is the identity.
func (s *Source) Perm(n int) []int {
	p := make([]int, n)
	for i := range p {
		p[i] = i
	}
	for i := 0; i < n-1; i++ {
		j := i + s.Draw(n-i)
		p[i], p[j] = p[j], p[i]
	}
	return p
}
