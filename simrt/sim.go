package simrt

import (
	"fmt"
	"runtime"
	"sort"
	"strings"
	"sync/atomic"
	"testing/synctest"
	"unsafe"
)

// Goroutine states.
const (
	stRunning int32 = iota // executing, or blocked inside a real channel operation
	stParked               // at a yield point, runnable
	stBlocked              // waiting for a simulated object (mutex, cond, event, pipe)
	stDone
)

// G is one simulated goroutine.
type G struct {
	ID    int
	Name  string
	sim   *Sim
	gate  chan struct{}
	state int32
	site  string // last yield site
	on    string // what it is blocked on (stBlocked) or the channel-op site (stRunning)
	inOp  bool   // between Before and After of a real channel operation
	pri   uint64 // PCT priority
	Role  string // set by harnesses for fingerprints
}

// Site returns the last yield site of g.
func (g *G) Site() string { return g.site }

// Strategy parametrises how the generator biases scheduling decisions. It has
// no influence in replay mode.
type Strategy struct {
	Kind     int   // 0 uniform, 1 sticky, 2 PCT, 3 starve-one
	StickyP  int   // per mille probability of not preempting (Kind 1 and 3)
	PCTSteps []int // step numbers at which the running goroutine's priority drops (Kind 2)
	Victim   int   // goroutine id held back (Kind 3)
	Until    int   // step at which the victim is released (Kind 3)
	// TimerP is the per mille probability, at a step where goroutines are
	// runnable, that the earliest pending simulated timer fires instead (the
	// runnable goroutines were slow). With nothing runnable the clock always
	// jumps to the next timer.
	TimerP int
}

// StrategyNames are the names used in evidence.
var StrategyNames = []string{"uniform", "sticky", "pct", "starve-one"}

// Failure describes a violation detected during a run.
type Failure struct {
	Class string   // e.g. "panic", "hang", "misuse", "oracle:<name>"
	Msg   string   // human readable
	Sites []string // sorted, function-level sites that make up the fingerprint
}

// Config configures a run.
type Config struct {
	Sched    *Source
	Strategy Strategy
	MaxSteps int
	KeepLog  bool
	// OnStep is called with every goroutine parked, before each scheduling
	// decision. A non-nil result ends the run as a violation.
	OnStep func(s *Sim) *Failure
	// StateSig returns an abstract state signature for the coverage measure.
	StateSig func() uint64
	// OnQuiesce is called when no goroutine is runnable. It may make goroutines
	// runnable (release events, heal faults, start a new phase) and returns
	// false when the run is over.
	OnQuiesce func(s *Sim, n int) bool
	// OnPanic sees a panic that ends a simulated goroutine; returning true
	// means it was an orderly end (the simulated process exited) and not a
	// failure of the code under test.
	OnPanic func(v interface{}) bool
	// CPUs is what the simulated machine reports as GOMAXPROCS / NumCPU (0: the real value).
	CPUs int
}

// Sim is one simulated execution.
type Sim struct {
	cfg      Config
	gs       []*G
	cur      *G
	steps    int
	hash     uint64
	fail     *Failure
	failSet  int32
	Log      []string
	States   map[uint64]struct{}
	quiesces int
	exhaust  bool
	switches int
	lastRun  *G
	Probes   map[string]int
	Faults   map[string]int
	sched    *Source
	minPri   uint64
	inHook   bool // the scheduler itself is executing a harness hook: yields are no-ops
	now      int64 // simulated clock, nanoseconds since the start of the run
	timers   []*Timer
	timerSeq uint64
	Fired    int // timers that fired
	cpus     int
}

var runStart []func()

// OnRunStart registers f to run at the start of every simulated run (the
// instrumenter generates such registrations; see simgen.reinitPackageLevel).
func OnRunStart(f func()) { runStart = append(runStart, f) }

var active unsafe.Pointer // *Sim

// Active returns the running simulation or nil (pass-through mode).
func Active() *Sim { return (*Sim)(atomic.LoadPointer(&active)) }

// Result summarises a finished run.
type Result struct {
	Steps        int
	Switches     int
	SchedHash    uint64
	Failure      *Failure
	Inconclusive bool
	Log          []string
	States       map[uint64]struct{}
	Blocked      []string // goroutines not done at the end: "name@site[on]"
	Probes       map[string]int
	Faults       map[string]int
	SchedTrace   []int
	Goroutines   int
	SimNanos     int64 // simulated clock at the end of the run
	TimersFired  int
}

// Run executes body as simulated goroutine 0 under the scheduler and returns
// when the run is over. It must be called on the root goroutine of a
// testing/synctest bubble.
func Run(cfg Config, body func(s *Sim)) *Result {
	if cfg.MaxSteps <= 0 {
		cfg.MaxSteps = 20000
	}
	s := &Sim{cfg: cfg, hash: 1469598103934665603, States: map[uint64]struct{}{},
		Probes: map[string]int{}, Faults: map[string]int{}, sched: cfg.Sched, minPri: 1 << 62}
	atomic.StorePointer(&active, unsafe.Pointer(s))
	defer atomic.StorePointer(&active, nil)
	s.cpus = cfg.CPUs
	for _, f := range runStart {
		f() // package-level channels and sync objects of the instrumented code: made anew, inside the bubble
	}
	g0 := s.newG("main")
	go s.entry(g0, func() { body(s) })
	s.loop()
	res := &Result{Steps: s.steps, Switches: s.switches, SchedHash: s.hash, Failure: s.fail, Inconclusive: s.exhaust,
		Log: s.Log, States: s.States, Probes: s.Probes, Faults: s.Faults, SchedTrace: s.sched.Trace(), Goroutines: len(s.gs), SimNanos: s.now, TimersFired: s.Fired}
	for _, g := range s.gs {
		if st := atomic.LoadInt32(&g.state); st != stDone {
			res.Blocked = append(res.Blocked, g.describe())
		}
	}
	return res
}

func (g *G) describe() string {
	st := atomic.LoadInt32(&g.state)
	switch st {
	case stParked:
		return fmt.Sprintf("%s parked@%s", g.Name, g.site)
	case stBlocked:
		return fmt.Sprintf("%s blocked@%s on %s", g.Name, g.site, g.on)
	case stRunning:
		return fmt.Sprintf("%s chan-blocked@%s", g.Name, g.site)
	}
	return g.Name + " done"
}

func (s *Sim) newG(name string) *G {
	g := &G{ID: len(s.gs), Name: name, sim: s, gate: make(chan struct{}, 1), state: stParked, site: "start"}
	if s.cfg.Strategy.Kind == 2 && !s.sched.Replaying() {
		g.pri = s.sched.Raw()>>2 | 1<<62
	}
	s.gs = append(s.gs, g)
	return g
}

// entry is the body of every simulated goroutine.
func (s *Sim) entry(g *G, f func()) {
	<-g.gate
	defer func() {
		if r := recover(); r != nil {
			if _, ok := r.(abortRun); !ok && !(s.cfg.OnPanic != nil && s.cfg.OnPanic(r)) {
				s.SetFailure(&Failure{Class: "panic", Msg: fmt.Sprintf("%v\n%s", r, shortStack()), Sites: []string{firstLine(fmt.Sprint(r))}})
			}
		}
		atomic.StoreInt32(&g.state, stDone)
	}()
	f()
}

type abortRun struct{}

func firstLine(s string) string {
	if i := strings.IndexByte(s, '\n'); i >= 0 {
		s = s[:i]
	}
	if len(s) > 160 {
		s = s[:160]
	}
	return s
}

func shortStack() string {
	buf := make([]byte, 8192)
	n := runtime.Stack(buf, false)
	return string(buf[:n])
}

// SetFailure records the first failure of the run.
func (s *Sim) SetFailure(f *Failure) {
	if atomic.CompareAndSwapInt32(&s.failSet, 0, 1) {
		sort.Strings(f.Sites)
		s.fail = f
	}
}

// Failed reports whether a failure has been recorded.
func (s *Sim) Failed() bool { return atomic.LoadInt32(&s.failSet) != 0 }

// Steps returns the number of scheduling steps so far (the logical clock).
func (s *Sim) Steps() int { return s.steps }

// Cur returns the running goroutine.
func (s *Sim) Cur() *G { return s.cur }

// Sched returns the schedule choice source.
func (s *Sim) Sched() *Source { return s.sched }

// Goroutines returns all goroutines in creation order.
func (s *Sim) Goroutines() []*G { return s.gs }

// Probe counts a reached condition.
func (s *Sim) Probe(name string) { s.Probes[name]++ }

// Fault counts a fired fault.
func (s *Sim) Fault(kind string) { s.Faults[kind]++ }

// Logf appends to the textual event log (replay mode only) and always mixes
// the formatted event into the event hash when hashed is true.
func (s *Sim) Logf(format string, a ...interface{}) {
	if s.cfg.KeepLog {
		s.Log = append(s.Log, fmt.Sprintf(format, a...))
	}
}

// Mix adds an observable event to the event-log hash.
func (s *Sim) Mix(v uint64) {
	s.hash ^= v
	s.hash *= 1099511628211
}

func hashStr(h uint64, str string) uint64 {
	for i := 0; i < len(str); i++ {
		h ^= uint64(str[i])
		h *= 1099511628211
	}
	return h
}

// MixStr adds a string event to the event-log hash.
func (s *Sim) MixStr(str string) { s.hash = hashStr(s.hash, str) }

func (s *Sim) loop() {
	for {
		synctest.Wait()
		if s.Failed() {
			return
		}
		s.inHook = true
		if s.cfg.OnStep != nil {
			if f := s.cfg.OnStep(s); f != nil {
				s.SetFailure(f)
				return
			}
		}
		if s.cfg.StateSig != nil {
			s.States[s.cfg.StateSig()] = struct{}{}
		}
		s.inHook = false
		var run []*G
		curRunnable := false
		for _, g := range s.gs {
			if atomic.LoadInt32(&g.state) == stParked {
				if g == s.cur {
					curRunnable = true
				} else {
					run = append(run, g)
				}
			}
		}
		if curRunnable {
			run = append([]*G{s.cur}, run...)
		}
		tm := s.nextTimer()
		if len(run) == 0 && tm != nil {
			// nothing can run: discrete-event time, the clock jumps to the next timer
			s.fire(tm, "idle")
			continue
		}
		if len(run) == 0 {
			s.quiesces++
			s.inHook = true
			cont := s.cfg.OnQuiesce != nil && s.cfg.OnQuiesce(s, s.quiesces)
			s.inHook = false
			if cont {
				if s.Failed() {
					return
				}
				continue
			}
			return
		}
		if s.steps >= s.cfg.MaxSteps {
			s.exhaust = true
			return
		}
		n := len(run)
		if tm != nil {
			// one more alternative (the last, so that 0 stays "nothing unusual"): time
			// passes and the earliest timer fires before any runnable goroutine moves
			idx := s.sched.Given(n+1, func() int {
				if tp := s.cfg.Strategy.TimerP; tp > 0 && int(s.sched.Raw()%1000) < tp {
					return n
				}
				return s.pick(run, curRunnable)
			})
			if idx == n {
				s.fire(tm, "early")
				continue
			}
			s.runG(run[idx], idx, n)
			continue
		}
		idx := s.sched.Given(n, func() int { return s.pick(run, curRunnable) })
		s.runG(run[idx], idx, n)
	}
}

func (s *Sim) runG(g *G, idx, n int) {
	{
		s.steps++
		if g != s.lastRun {
			s.switches++
			s.lastRun = g
		}
		s.hash ^= uint64(g.ID+1) * 0x9E3779B97F4A7C15
		s.hash *= 1099511628211
		s.hash = hashStr(s.hash, g.site)
		if s.cfg.KeepLog {
			s.Log = append(s.Log, fmt.Sprintf("%d: run %s (%d of %d) from %s", s.steps, g.Name, idx, n, g.site))
		}
		s.cur = g
		atomic.StoreInt32(&g.state, stRunning)
		g.gate <- struct{}{}
	}
}

// --- simulated time --------------------------------------------------------------
//
// The clock only moves when a timer fires: either because nothing else can run
// (discrete-event time: an hour-long timeout costs one step) or because the
// choice source decided that the runnable goroutines were slow enough for the
// earliest deadline to pass first. Timers fire in deadline order.

// Timer is a pending, fired or stopped simulated timer.
type Timer struct {
	s      *Sim
	at     int64
	seq    uint64
	site   string
	f      func() // runs as a new simulated goroutine when the timer fires
	direct func() // or: runs inline in the scheduler (must not yield)
	state  int    // 0 pending, 1 fired, 2 stopped
}

// Now returns the simulated clock in nanoseconds since the start of the run.
func (s *Sim) Now() int64 { return s.now }

// AfterFunc arranges for f to run in its own simulated goroutine once d
// nanoseconds of simulated time have passed.
func (s *Sim) AfterFunc(d int64, site string, f func()) *Timer {
	return s.addTimer(d, site, f, nil)
}

// AfterDirect arranges for f to run inline in the scheduler when the timer
// fires; f must not reach a scheduling point (it may wake goroutines and do
// non-blocking channel sends).
func (s *Sim) AfterDirect(d int64, site string, f func()) *Timer {
	return s.addTimer(d, site, nil, f)
}

func (s *Sim) addTimer(d int64, site string, f, direct func()) *Timer {
	if d < 0 {
		d = 0
	}
	s.timerSeq++
	t := &Timer{s: s, at: s.now + d, seq: s.timerSeq, site: site, f: f, direct: direct}
	s.timers = append(s.timers, t)
	return t
}

// Stop prevents the timer from firing. It reports whether the call stopped the
// timer: false means it already fired (its function has been started, possibly
// not yet run) or was stopped before — the contract of time.Timer.Stop.
func (t *Timer) Stop() bool {
	if t.state != 0 {
		return false
	}
	t.state = 2
	t.s.dropTimer(t)
	return true
}

// Reset re-arms the timer; it reports whether the timer had been pending.
func (t *Timer) Reset(d int64) bool {
	was := t.state == 0
	if was {
		t.s.dropTimer(t)
	}
	if d < 0 {
		d = 0
	}
	t.s.timerSeq++
	t.state, t.at, t.seq = 0, t.s.now+d, t.s.timerSeq
	t.s.timers = append(t.s.timers, t)
	return was
}

func (s *Sim) dropTimer(t *Timer) {
	for i, x := range s.timers {
		if x == t {
			s.timers = append(s.timers[:i:i], s.timers[i+1:]...)
			return
		}
	}
}

// SetCPUs sets what the simulated machine reports as GOMAXPROCS / NumCPU.
func (s *Sim) SetCPUs(n int) { s.cpus = n }

// CPUs is the simulated machine's size (0: not set, the real one applies).
func (s *Sim) CPUs() int { return s.cpus }

// PendingTimers is the number of armed timers.
func (s *Sim) PendingTimers() int { return len(s.timers) }

func (s *Sim) nextTimer() *Timer {
	var best *Timer
	for _, t := range s.timers {
		if best == nil || t.at < best.at || (t.at == best.at && t.seq < best.seq) {
			best = t
		}
	}
	return best
}

// fire advances the clock to t's deadline and starts its function.
func (s *Sim) fire(t *Timer, why string) {
	s.dropTimer(t)
	t.state = 1
	if t.at > s.now {
		s.now = t.at
	}
	s.steps++
	s.Fired++
	s.Faults["timer-fired-"+why]++
	s.hash = hashStr(s.hash^0x71be5, t.site)
	if s.cfg.KeepLog {
		s.Log = append(s.Log, fmt.Sprintf("%d: timer %s fires (%s), clock %dns", s.steps, t.site, why, s.now))
	}
	if t.direct != nil {
		s.inHook = true
		t.direct()
		s.inHook = false
		return
	}
	g := s.newG("timer<" + t.site + ">")
	g.site = t.site
	go s.entry(g, t.f)
}

// pick implements the generation-time scheduling strategies.
func (s *Sim) pick(run []*G, curFirst bool) int {
	n := len(run)
	if n == 1 {
		return 0
	}
	st := &s.cfg.Strategy
	switch st.Kind {
	case 1:
		if curFirst && int(s.sched.Raw()%1000) < st.StickyP {
			return 0
		}
		return int(s.sched.Raw() % uint64(n))
	case 2:
		for _, at := range st.PCTSteps {
			if at == s.steps && s.cur != nil {
				s.minPri--
				s.cur.pri = s.minPri
			}
		}
		best := 0
		for i, g := range run {
			if g.pri > run[best].pri {
				best = i
			}
		}
		return best
	case 3:
		if s.steps < st.Until {
			var cand []int
			for i, g := range run {
				if g.ID != st.Victim {
					cand = append(cand, i)
				}
			}
			if len(cand) > 0 {
				if curFirst && run[0].ID != st.Victim && int(s.sched.Raw()%1000) < st.StickyP {
					return 0
				}
				return cand[int(s.sched.Raw()%uint64(len(cand)))]
			}
		}
		return int(s.sched.Raw() % uint64(n))
	}
	return int(s.sched.Raw() % uint64(n))
}

// park makes g runnable and waits until the scheduler releases it.
func (s *Sim) park(g *G, site string) {
	g.site = site
	atomic.StoreInt32(&g.state, stParked)
	<-g.gate
}

// block marks g as waiting for a simulated object and waits until some other
// party calls wake(g) and the scheduler releases it.
func (s *Sim) block(g *G, on string) {
	g.on = on
	atomic.StoreInt32(&g.state, stBlocked)
	<-g.gate
	g.on = ""
}

// wake makes a blocked goroutine runnable.
func (s *Sim) wake(g *G) {
	atomic.CompareAndSwapInt32(&g.state, stBlocked, stParked)
}

// Yield is a scheduling point of the running goroutine.
func Yield(site string) {
	s := Active()
	if s == nil || s.inHook {
		return
	}
	s.park(s.cur, site)
}

// Before parks the running goroutine ahead of a real channel operation and
// returns its handle for After.
func Before(site string) *G {
	s := Active()
	if s == nil || s.inHook {
		return nil
	}
	g := s.cur
	s.park(g, site)
	g.inOp = true
	return g
}

// After parks the goroutine once its real channel operation has completed. A
// goroutine woken by another goroutine's operation runs from the completed
// operation to this point concurrently with its waker and touches only its
// own handle.
func After(g *G) {
	if g == nil {
		return
	}
	g.inOp = false
	g.sim.park(g, g.site)
}

// OthersAlive reports whether any simulated goroutine other than the running
// one has not finished yet.
func (s *Sim) OthersAlive() bool {
	for _, g := range s.gs {
		if g != s.cur && atomic.LoadInt32(&g.state) != stDone {
			return true
		}
	}
	return false
}

// Abort ends the calling goroutine immediately (used after a failure).
func Abort() { panic(abortRun{}) }

// --- goroutine creation ------------------------------------------------------

// NewG registers a goroutine at the `go` statement, in the spawning goroutine.
func NewG(site string) *G {
	s := Active()
	if s == nil {
		return nil
	}
	name := fmt.Sprintf("g%d<%s>", len(s.gs), site)
	g := s.newG(name)
	g.site = site
	return g
}

func (g *G) run(f func()) {
	if g == nil {
		f()
		return
	}
	g.sim.entry(g, f)
}

// Go starts f as a simulated goroutine (harness use).
func Go(name string, f func()) *G {
	s := Active()
	if s == nil {
		go f()
		return nil
	}
	g := s.newG(name)
	go s.entry(g, f)
	return g
}

// W0..W4 wrap the function of a `go` statement: `go f(a, b)` becomes
// `go simrt.W2(simrt.NewG(site), f)(a, b)`, so the function value and the
// arguments are still evaluated by the spawning goroutine as the language
// requires, and the new goroutine first waits for the scheduler.
func W0(g *G, f func()) func() { return func() { g.run(f) } }
func W1[A any](g *G, f func(A)) func(A) {
	return func(a A) { g.run(func() { f(a) }) }
}
func W2[A, B any](g *G, f func(A, B)) func(A, B) {
	return func(a A, b B) { g.run(func() { f(a, b) }) }
}
func W3[A, B, C any](g *G, f func(A, B, C)) func(A, B, C) {
	return func(a A, b B, c C) { g.run(func() { f(a, b, c) }) }
}
func W4[A, B, C, D any](g *G, f func(A, B, C, D)) func(A, B, C, D) {
	return func(a A, b B, c C, d D) { g.run(func() { f(a, b, c, d) }) }
}
func W0R[R any](g *G, f func() R) func() { return func() { g.run(func() { f() }) } }
func W1R[A, R any](g *G, f func(A) R) func(A) {
	return func(a A) { g.run(func() { f(a) }) }
}
func W2R[A, B, R any](g *G, f func(A, B) R) func(A, B) {
	return func(a A, b B) { g.run(func() { f(a, b) }) }
}
func W3R[A, B, C, R any](g *G, f func(A, B, C) R) func(A, B, C) {
	return func(a A, b B, c C) { g.run(func() { f(a, b, c) }) }
}

func W4R[A, B, C, D, R any](g *G, f func(A, B, C, D) R) func(A, B, C, D) {
	return func(a A, b B, c C, d D) { g.run(func() { f(a, b, c, d) }) }
}
func W5[A, B, C, D, E any](g *G, f func(A, B, C, D, E)) func(A, B, C, D, E) {
	return func(a A, b B, c C, d D, e E) { g.run(func() { f(a, b, c, d, e) }) }
}

// --- select ---------------------------------------------------------------------

// Sel carries one execution of a rewritten select statement.
type Sel struct {
	g     *G
	order []int
}

// SelBegin is the yield ahead of a select with n communication clauses; it
// also draws the order in which ready clauses are polled.
func SelBegin(site string, n int) *Sel {
	s := Active()
	if s == nil || s.inHook {
		// Pass-through: poll in a pseudo-random order like the runtime does.
		o := make([]int, n)
		for i := range o {
			o[i] = i
		}
		k := int(atomic.AddUint32(&ptRand, 0x9E3779B1) >> 8)
		for i := n - 1; i > 0; i-- {
			j := k % (i + 1)
			k = k/(i+1) + 7
			o[i], o[j] = o[j], o[i]
		}
		return &Sel{order: o}
	}
	g := s.cur
	s.park(g, site)
	g.inOp = true
	var o []int
	if n == 1 {
		o = []int{0}
	} else {
		o = s.sched.Perm(n)
	}
	return &Sel{g: g, order: o}
}

var ptRand uint32

// Order is the polling order.
func (s *Sel) Order() []int { return s.order }

// End is the yield after the chosen communication has happened.
func (s *Sel) End() { After(s.g) }

// RecvSlot holds the result of a receive clause.
type RecvSlot[T any] struct {
	V  T
	Ok bool
}

// Slot returns a typed result holder for a receive from ch.
func Slot[C interface{ ~chan T | ~<-chan T }, T any](ch C) *RecvSlot[T] { return &RecvSlot[T]{} }

// TryRecv polls a receive.
func TryRecv[C interface{ ~chan T | ~<-chan T }, T any](r *RecvSlot[T], ch C) bool {
	select {
	case r.V, r.Ok = <-ch:
		return true
	default:
		return false
	}
}

// SendVal converts v to the element type of ch (evaluated once, on entry).
func SendVal[C interface{ ~chan T | ~chan<- T }, T any](ch C, v T) T { return v }

// TrySend polls a send.
func TrySend[C interface{ ~chan T | ~chan<- T }, T any](ch C, v T) bool {
	select {
	case ch <- v:
		return true
	default:
		return false
	}
}

// WaitAny blocks until one of the signal channels is ready (closed or sent
// to) and returns its index; among simultaneously ready channels the choice
// source decides. Harness code uses it instead of a raw select.
func WaitAny(site string, chans ...<-chan struct{}) int {
	sel := SelBegin(site, len(chans))
	k := -1
	for _, i := range sel.order {
		select {
		case <-chans[i]:
			k = i
		default:
		}
		if k >= 0 {
			break
		}
	}
	if k < 0 {
		switch len(chans) {
		case 1:
			<-chans[0]
			k = 0
		case 2:
			select {
			case <-chans[0]:
				k = 0
			case <-chans[1]:
				k = 1
			}
		case 3:
			select {
			case <-chans[0]:
				k = 0
			case <-chans[1]:
				k = 1
			case <-chans[2]:
				k = 2
			}
		default:
			panic("simrt.WaitAny: at most 3 channels")
		}
	}
	sel.End()
	return k
}

// Close is close(ch) bracketed by scheduling points.
func Close[C interface{ ~chan T | ~chan<- T }, T any](site string, ch C) {
	g := Before(site)
	close(ch)
	After(g)
}
