// Package simnet is the simulated byte transport: pipe pairs whose delivery,
// chunking, blocking and failures are decided by the simulator.
package simnet

import (
	"errors"
	"io"

	"github.com/goplus/xgo/zsim/simrt"
)

// Errors returned by the transport.
var (
	ErrClosed = errors.New("simnet: use of closed connection")
	ErrReset  = errors.New("simnet: connection reset by peer")
	ErrPipe   = errors.New("simnet: broken pipe")
	ErrIO     = errors.New("simnet: injected I/O error")
)

// half is one direction of a pipe.
type half struct {
	buf      []byte
	cap      int  // 0: synchronous like net.Pipe; >0: bounded buffer
	wclosed  bool // writer side closed (reader sees EOF after draining)
	rclosed  bool // reader side closed (writer sees ErrPipe)
	cut      bool // connection cut: reader sees ErrReset, writer ErrPipe
	stalled  bool // nothing is delivered until healed
	w        simrt.WaitList
	total    int // bytes ever written
	consumed int // bytes ever read
}

// Faults is the per-end fault plan. Counters are in calls on that end.
type Faults struct {
	WriteErrAt int // the connection breaks during the n-th Write, after a prefix was delivered (0: never)
	ReadErrAt  int // the connection breaks and the n-th Read is the first call to notice
	CutAtByte  int // cut the connection when this many bytes have been written by this end (0: never)
	StallAt    int // stall this end's outgoing direction from its n-th Write until healed
	HalfCloseAt int // the n-th Write finds this end's outgoing direction shut down: the peer reads EOF but can still write
	ShortReads bool
	ShortWrite bool // deliver writes in several chunks, yielding in between
}

// End is one end of a pipe.
type End struct {
	Name   string
	in     *half
	out    *half
	peer   *End
	closed bool
	F      Faults
	nw, nr int
	Closes int
	wshut  bool
	// StdinLike: a Read that is blocked (or starts) after Close keeps waiting for
	// data instead of failing, like a terminal or pipe read that close(2) from
	// another thread does not interrupt. This is the case x/fakenet exists for.
	StdinLike bool
}

// Pipe returns the two connected ends; capacity 0 is a synchronous pipe.
func Pipe(nameA, nameB string, capacity int) (*End, *End) {
	ab := &half{cap: capacity}
	ba := &half{cap: capacity}
	a := &End{Name: nameA, in: ba, out: ab}
	b := &End{Name: nameB, in: ab, out: ba}
	a.peer, b.peer = b, a
	return a, b
}

// Heal stops fault injection on this end and ends stalls on both directions
// (called when faults stop).
func (e *End) Heal() {
	s := simrt.Active()
	e.F = Faults{}
	for _, h := range []*half{e.in, e.out} {
		if h.stalled {
			h.stalled = false
			h.w.WakeAll(s)
		}
	}
}

// Cut breaks the connection in both directions.
func (e *End) Cut() {
	s := simrt.Active()
	for _, h := range []*half{e.in, e.out} {
		h.cut = true
		h.w.WakeAll(s)
	}
	s.Fault("cut")
}

// InFlight reports bytes written by this end that the peer has not read.
func (e *End) InFlight() int { return len(e.out.buf) }

// Broken reports whether the peer has closed its end or the connection was cut.
func (e *End) Broken() bool { return e.peer.closed || e.in.cut || e.out.cut }

// IsClosed reports whether Close was called on this end.
func (e *End) IsClosed() bool { return e.closed }

func (e *End) Read(b []byte) (int, error) {
	s := simrt.Active()
	simrt.Yield("simnet.Read")
	e.nr++
	if e.F.ReadErrAt > 0 && e.nr == e.F.ReadErrAt && !e.in.cut {
		// the disconnect is first noticed by this Read
		s.Fault("disconnect-at-read")
		e.Cut()
		return 0, ErrReset
	}
	h := e.in
	for {
		if e.closed && !e.StdinLike {
			return 0, ErrClosed
		}
		if h.cut {
			return 0, ErrReset
		}
		if len(h.buf) > 0 && !h.stalled {
			n := len(h.buf)
			if n > len(b) {
				n = len(b)
			}
			if e.F.ShortReads && n > 1 && s.Sched().Chance(400) {
				n = 1 + s.Sched().Draw(n)
				s.Fault("short-read")
			}
			copy(b, h.buf[:n])
			h.buf = h.buf[n:]
			h.consumed += n
			h.w.WakeAll(s)
			return n, nil
		}
		if h.wclosed && len(h.buf) == 0 {
			return 0, io.EOF
		}
		if len(b) == 0 {
			return 0, nil
		}
		h.w.Wait(s, "simnet.Read "+e.Name)
	}
}

func (e *End) Write(b []byte) (int, error) {
	s := simrt.Active()
	simrt.Yield("simnet.Write")
	e.nw++
	h := e.out
	if e.F.StallAt > 0 && e.nw == e.F.StallAt && !h.stalled {
		h.stalled = true
		s.Fault("stall")
	}
	if e.wshut {
		return 0, ErrPipe
	}
	if e.F.HalfCloseAt > 0 && e.nw == e.F.HalfCloseAt {
		// This end shuts down its outgoing direction instead of writing (like
		// shutdown(SHUT_WR) or a closed stdout): the peer drains and then reads
		// EOF, while the peer's own writes keep being read by this end.
		e.wshut = true
		h.wclosed = true
		h.w.WakeAll(s)
		s.Fault("half-close")
		return 0, ErrPipe
	}
	limit := len(b)
	var ferr error
	if e.F.WriteErrAt > 0 && e.nw == e.F.WriteErrAt {
		limit = s.Sched().Draw(len(b) + 1)
		ferr = ErrPipe
		s.Fault("disconnect-mid-write")
	}
	written := 0
	for {
		if e.closed {
			return written, ErrClosed
		}
		if h.cut || h.rclosed {
			return written, ErrPipe
		}
		if written >= limit {
			if ferr != nil {
				// the disconnect happens in the middle of this frame
				e.Cut()
				return written, ferr
			}
			break
		}
		room := limit - written
		if h.cap > 0 {
			if free := h.cap - len(h.buf); free < room {
				room = free
			}
		} else if len(h.buf) > 0 {
			room = 0
		}
		if room > 0 {
			if e.F.ShortWrite && room > 1 && s.Sched().Chance(400) {
				room = 1 + s.Sched().Draw(room)
				s.Fault("chunked-write")
			}
			h.buf = append(h.buf, b[written:written+room]...)
			written += room
			h.total += room
			if e.F.CutAtByte > 0 && h.total >= e.F.CutAtByte && !h.cut {
				e.Cut()
				continue
			}
			h.w.WakeAll(s)
			if e.F.ShortWrite {
				simrt.Yield("simnet.Write chunk")
			}
			continue
		}
		h.w.Wait(s, "simnet.Write "+e.Name)
	}
	if h.cap == 0 {
		// synchronous pipe: return once the peer has taken everything
		for len(h.buf) > 0 {
			if e.closed {
				return written - len(h.buf), ErrClosed
			}
			if h.cut || h.rclosed {
				return written - len(h.buf), ErrPipe
			}
			h.w.Wait(s, "simnet.Write "+e.Name)
		}
	}
	return written, nil
}

// Close closes this end: local calls fail, the peer reads EOF after draining
// (synchronous pipes drop what was not taken) and its writes fail.
func (e *End) Close() error {
	s := simrt.Active()
	simrt.Yield("simnet.Close")
	e.Closes++
	if e.closed {
		return ErrClosed
	}
	e.closed = true
	e.out.wclosed = true
	e.in.rclosed = true
	if e.out.cap == 0 {
		// nothing is buffered in a synchronous pipe: what the peer has not
		// taken yet is not delivered
		e.out.buf = nil
	}
	e.in.buf = nil
	e.in.w.WakeAll(s)
	e.out.w.WakeAll(s)
	return nil
}
