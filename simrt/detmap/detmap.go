// Package detmap puts `range` over a map behind the choice source: the keys
// are snapshotted, put into a canonical (address-free) order and then permuted
// by an order source. Every order produced is one the Go runtime may produce.
package detmap

import (
	"fmt"
	"reflect"
	"sort"
	"sync"
)

// Order decides the permutation used at one execution of a range site. n is
// the number of keys; it returns a permutation of [0,n) or nil for identity.
type Order func(site string, n int) []int

var (
	mu       sync.Mutex
	order    Order
	Sites    = map[string]int{} // executions per site with >= 2 keys
	Unord    = map[string]int{} // executions whose keys had no canonical order
	Permuted int                // executions that received a non-identity order
)

// SetOrder installs the order source (nil: canonical order everywhere).
func SetOrder(o Order) {
	mu.Lock()
	order = o
	mu.Unlock()
}

// Reset clears the counters.
func Reset() {
	mu.Lock()
	Sites = map[string]int{}
	Unord = map[string]int{}
	Permuted = 0
	mu.Unlock()
}

// Entry is one iteration of a rewritten range statement.
type Entry[K comparable, V any] struct {
	K K
	m map[K]V
}

// Live reports whether the entry is still in the map (entries removed during
// the loop are not produced, as the language specifies).
func (e Entry[K, V]) Live() bool {
	_, ok := e.m[e.K]
	return ok
}

// Val is the current value of the entry.
func (e Entry[K, V]) Val() V { return e.m[e.K] }

// Iter returns the entries of m in the order chosen for this execution.
func Iter[M ~map[K]V, K comparable, V any](site string, m M) []Entry[K, V] {
	n := len(m)
	if n == 0 {
		return nil
	}
	es := make([]Entry[K, V], 0, n)
	for k := range m {
		es = append(es, Entry[K, V]{K: k, m: m})
	}
	if n == 1 {
		return es
	}
	ok := true
	keys := make([]reflect.Value, n)
	for i := range es {
		keys[i] = reflect.ValueOf(&es[i].K).Elem()
	}
	idx := make([]int, n)
	for i := range idx {
		idx[i] = i
	}
	sort.SliceStable(idx, func(a, b int) bool {
		c, o := cmp(keys[idx[a]], keys[idx[b]], 0)
		if !o {
			ok = false
		}
		return c < 0
	})
	mu.Lock()
	o := order
	Sites[site]++
	if !ok {
		Unord[site]++
	}
	mu.Unlock()
	if !ok {
		// No address-free order exists: leave the runtime's order (uncontrolled).
		return es
	}
	sorted := make([]Entry[K, V], n)
	for i, j := range idx {
		sorted[i] = es[j]
	}
	if o == nil {
		return sorted
	}
	p := o(site, n)
	if p == nil {
		return sorted
	}
	out := make([]Entry[K, V], n)
	ident := true
	for i, j := range p {
		out[i] = sorted[j]
		if i != j {
			ident = false
		}
	}
	if !ident {
		mu.Lock()
		Permuted++
		mu.Unlock()
	}
	return out
}

// cmp orders two values of the same static type; ok=false when the order
// would depend on an address.
func cmp(a, b reflect.Value, depth int) (c int, ok bool) {
	if depth > 8 {
		return 0, false
	}
	switch a.Kind() {
	case reflect.Bool:
		x, y := a.Bool(), b.Bool()
		if x == y {
			return 0, true
		}
		if !x {
			return -1, true
		}
		return 1, true
	case reflect.Int, reflect.Int8, reflect.Int16, reflect.Int32, reflect.Int64:
		return c3(a.Int() < b.Int(), a.Int() > b.Int()), true
	case reflect.Uint, reflect.Uint8, reflect.Uint16, reflect.Uint32, reflect.Uint64, reflect.Uintptr:
		return c3(a.Uint() < b.Uint(), a.Uint() > b.Uint()), true
	case reflect.Float32, reflect.Float64:
		return c3(a.Float() < b.Float(), a.Float() > b.Float()), true
	case reflect.Complex64, reflect.Complex128:
		x, y := a.Complex(), b.Complex()
		if real(x) != real(y) {
			return c3(real(x) < real(y), real(x) > real(y)), true
		}
		return c3(imag(x) < imag(y), imag(x) > imag(y)), true
	case reflect.String:
		return c3(a.String() < b.String(), a.String() > b.String()), true
	case reflect.Struct:
		for i := 0; i < a.NumField(); i++ {
			c, ok := cmp(a.Field(i), b.Field(i), depth+1)
			if !ok || c != 0 {
				return c, ok
			}
		}
		return 0, true
	case reflect.Array:
		for i := 0; i < a.Len(); i++ {
			c, ok := cmp(a.Index(i), b.Index(i), depth+1)
			if !ok || c != 0 {
				return c, ok
			}
		}
		return 0, true
	case reflect.Interface:
		if a.IsNil() || b.IsNil() {
			return c3(a.IsNil() && !b.IsNil(), !a.IsNil() && b.IsNil()), true
		}
		ea, eb := a.Elem(), b.Elem()
		if ea.Type() != eb.Type() {
			sa, sb := typeName(ea.Type()), typeName(eb.Type())
			if sa == sb {
				return 0, false
			}
			return c3(sa < sb, sa > sb), true
		}
		return cmp(ea, eb, depth+1)
	}
	return 0, false
}

func typeName(t reflect.Type) string { return fmt.Sprintf("%s.%s/%s", t.PkgPath(), t.Name(), t.String()) }

func c3(lt, gt bool) int {
	if lt {
		return -1
	}
	if gt {
		return 1
	}
	return 0
}
