// Package harn is the worker side shared by all simulated checks: it reads a
// job description, executes runs (generate, replay, shrink) inside synctest
// bubbles and writes one JSON record per interesting run plus a summary.
package harn

import (
	"bufio"
	"encoding/binary"
	"encoding/json"
	"fmt"
	"os"
	"sort"
	"strings"
	"testing"
	"testing/synctest"
	"time"

	"github.com/goplus/xgo/zsim/simrt"
)

// Job is what the driver asks a worker to do.
type Job struct {
	Property string `json:"property"`
	Mode     string `json:"mode"` // gen | replay | shrink
	Tier     string `json:"tier"`
	Seed     uint64 `json:"seed"`
	From     int    `json:"from"`
	To       int    `json:"to"`
	MaxSteps int    `json:"max_steps"`
	Out      string `json:"out"`    // JSON lines of records
	Hashes   string `json:"hashes"` // binary uint64 hashes of distinct non-trivial runs
	Replay   *Case  `json:"replay,omitempty"`
	Budget   int    `json:"budget"`   // shrink attempts
	Deadline int64  `json:"deadline"` // unix seconds; stop generating after it
	Samples  int    `json:"samples"`
	Knobs    map[string]int `json:"knobs,omitempty"`
}

// Case is one exactly reproducible run: the replay file.
type Case struct {
	Property    string      `json:"property"`
	Engine      string      `json:"engine"`
	Seed        uint64      `json:"seed"`
	Index       int         `json:"index"`
	Plan        []int       `json:"plan"`
	Sched       []int       `json:"sched"`
	Class       string      `json:"class"`
	Fingerprint string      `json:"fingerprint"`
	Msg         string      `json:"msg"`
	EventHash   string      `json:"event_log_hash"`
	Workload    interface{} `json:"workload,omitempty"`
	Schedule    []string    `json:"schedule,omitempty"`
	Blocked     []string    `json:"blocked,omitempty"`
	MaxSteps    int         `json:"max_steps"`
	Minimised   bool        `json:"minimised"`
	ShrinkRuns  int         `json:"shrink_runs,omitempty"`
	OrigPlanLen int         `json:"orig_plan_len,omitempty"`
	OrigSchedLen int        `json:"orig_sched_len,omitempty"`
	Knobs       map[string]int `json:"knobs,omitempty"` // harness configuration overrides the run was made under
}

// Record is one line of worker output.
type Record struct {
	Kind    string         `json:"kind"` // violation | sample | summary | replayed
	Case    *Case          `json:"case,omitempty"`
	Summary *Summary       `json:"summary,omitempty"`
}

// Summary aggregates a worker's runs.
type Summary struct {
	Runs         int            `json:"runs"`
	Nontrivial   int            `json:"nontrivial"`
	Violations   int            `json:"violations"`
	Inconclusive int            `json:"inconclusive"`
	Steps        int64          `json:"steps"`
	Switches     int64          `json:"switches"`
	Goroutines   int64          `json:"goroutines"`
	Faults       map[string]int `json:"faults"`
	Probes       map[string]int `json:"probes"`
	Strategies   map[string]int `json:"strategies"`
	States       []uint64       `json:"states"`
	Extra        map[string]int `json:"extra"`
	WallMS       int64          `json:"wall_ms"`
	MaxStepsRun  int            `json:"max_steps_in_a_run"`
	SimNanos     int64          `json:"sim_nanos"`
	TimersFired  int64          `json:"timers_fired"`
}

// Run is one prepared execution of a harness.
type Run interface {
	// Strategy returns the scheduling strategy drawn for this run.
	Strategy() simrt.Strategy
	// Body is simulated goroutine 0.
	Body(s *simrt.Sim)
	// OnStep is the invariant hook (may be nil-returning).
	OnStep(s *simrt.Sim) *simrt.Failure
	// StateSig is the abstract state signature (0 if none).
	StateSig() uint64
	// OnQuiesce is called when nothing is runnable.
	OnQuiesce(s *simrt.Sim, n int) bool
	// Check evaluates the oracles over the finished run.
	Check(res *simrt.Result) *simrt.Failure
	// Workload describes the run for samples and replay files.
	Workload() interface{}
	// WorkHash identifies the workload and fault plan.
	WorkHash() uint64
	// Nontrivial reports whether the run made progress by the harness's rule.
	Nontrivial(res *simrt.Result) bool
	// Extra counters for evidence.
	Extra() map[string]int
}

// SeqRun is implemented by runs of sequential code: the simulator owns the
// environment (disk, streams, clock, iteration orders) but there is nothing
// to schedule, so no bubble and no scheduler are used.
type SeqRun interface {
	RunSeq(sched *simrt.Source, keepLog bool) *simrt.Result
}

// Harness creates runs from a plan source.
type Harness interface {
	Name() string
	NewRun(plan *simrt.Source, job *Job) Run
}

func mix(a, b uint64) uint64 {
	z := a*0x9E3779B97F4A7C15 ^ (b+0x632BE59BD9B4E019)*0xBF58476D1CE4E5B9
	z ^= z >> 29
	z *= 0x94D049BB133111EB
	z ^= z >> 32
	return z
}

type outcome struct {
	res  *simrt.Result
	fail *simrt.Failure
	run  Run
	plan []int
}

func execute(t *testing.T, h Harness, job *Job, plan, sched *simrt.Source, keepLog bool) (o outcome) {
	run := h.NewRun(plan, job)
	o.run = run
	o.plan = plan.Trace()
	cfg := simrt.Config{Sched: sched, Strategy: run.Strategy(), MaxSteps: job.MaxSteps, KeepLog: keepLog,
		OnStep: run.OnStep, OnQuiesce: run.OnQuiesce}
	if run.StateSig() != 0 || true {
		cfg.StateSig = run.StateSig
	}
	if ph, ok := run.(interface{ OnPanic(v interface{}) bool }); ok {
		cfg.OnPanic = ph.OnPanic
	}
	if cr, ok := run.(interface{ CPUs() int }); ok {
		cfg.CPUs = cr.CPUs()
	}
	if sr, ok := run.(SeqRun); ok {
		// Sequential code under test: no goroutines to schedule; the run draws
		// its fault choices from the schedule source directly.
		o.res = sr.RunSeq(sched, keepLog)
		o.res.SchedTrace = sched.Trace()
		o.fail = o.res.Failure
		if o.fail == nil && !o.res.Inconclusive {
			o.fail = run.Check(o.res)
		}
		if o.fail != nil {
			sort.Strings(o.fail.Sites)
		}
		return
	}
	func() {
		defer func() {
			if r := recover(); r != nil {
				msg := fmt.Sprint(r)
				if !strings.Contains(msg, "deadlock: main bubble goroutine has exited") {
					panic(r)
				}
			}
		}()
		synctest.Test(t, func(t *testing.T) {
			o.res = simrt.Run(cfg, run.Body)
		})
	}()
	if o.res == nil {
		panic("harn: run produced no result")
	}
	o.fail = o.res.Failure
	if o.fail == nil && !o.res.Inconclusive {
		o.fail = run.Check(o.res)
		if o.fail != nil {
			sort.Strings(o.fail.Sites)
		}
	}
	return
}

// Fingerprint renders a failure's identity (class + sites, no seed, no lines).
func Fingerprint(f *simrt.Failure) string {
	return f.Class + " " + strings.Join(f.Sites, " + ")
}

func mkCase(h Harness, job *Job, seed uint64, idx int, o outcome) *Case {
	c := &Case{Property: job.Property, Engine: "simrt/1", Seed: seed, Index: idx, Plan: o.plan, Sched: o.res.SchedTrace,
		EventHash: fmt.Sprintf("%016x", o.res.SchedHash), Workload: o.run.Workload(), MaxSteps: job.MaxSteps, Blocked: o.res.Blocked, Knobs: job.Knobs}
	if o.fail != nil {
		c.Class = o.fail.Class
		c.Fingerprint = Fingerprint(o.fail)
		c.Msg = o.fail.Msg
	}
	c.Schedule = o.res.Log
	return c
}

// Main is the body of the worker test function.
func Main(t *testing.T, h Harness) {
	path := os.Getenv("VERIF_JOB")
	if path == "" {
		t.Skip("VERIF_JOB not set")
	}
	data, err := os.ReadFile(path)
	if err != nil {
		t.Fatal(err)
	}
	var job Job
	if err := json.Unmarshal(data, &job); err != nil {
		t.Fatal(err)
	}
	if job.MaxSteps == 0 {
		job.MaxSteps = 20000
	}
	out, err := os.Create(job.Out)
	if err != nil {
		t.Fatal(err)
	}
	defer out.Close()
	w := bufio.NewWriter(out)
	defer w.Flush()
	enc := json.NewEncoder(w)
	switch job.Mode {
	case "gen":
		generate(t, h, &job, enc)
	case "replay":
		o := execute(t, h, &job, simrt.NewReplay(job.Replay.Plan), simrt.NewReplay(job.Replay.Sched), true)
		c := mkCase(h, &job, job.Replay.Seed, job.Replay.Index, o)
		c.Minimised = job.Replay.Minimised
		enc.Encode(Record{Kind: "replayed", Case: c})
	case "shrink":
		c := shrink(t, h, &job)
		enc.Encode(Record{Kind: "violation", Case: c})
	default:
		t.Fatalf("unknown mode %q", job.Mode)
	}
}

func generate(t *testing.T, h Harness, job *Job, enc *json.Encoder) {
	start := time.Now()
	sum := &Summary{Faults: map[string]int{}, Probes: map[string]int{}, Strategies: map[string]int{}, Extra: map[string]int{}}
	states := map[uint64]struct{}{}
	var hashes []uint64
	samples := 0
	viol := 0
	for idx := job.From; idx < job.To; idx++ {
		if job.Deadline > 0 && idx%16 == 0 && time.Now().Unix() > job.Deadline {
			break
		}
		seed := mix(job.Seed, uint64(idx))
		o := execute(t, h, job, simrt.NewSource(seed*2+1), simrt.NewSource(seed*2+2), false)
		sum.Runs++
		sum.Steps += int64(o.res.Steps)
		sum.Switches += int64(o.res.Switches)
		sum.Goroutines += int64(o.res.Goroutines)
		sum.SimNanos += o.res.SimNanos
		sum.TimersFired += int64(o.res.TimersFired)
		if o.res.Steps > sum.MaxStepsRun {
			sum.MaxStepsRun = o.res.Steps
		}
		for k, v := range o.res.Faults {
			sum.Faults[k] += v
		}
		for k, v := range o.res.Probes {
			sum.Probes[k] += v
		}
		for k, v := range o.run.Extra() {
			sum.Extra[k] += v
		}
		sum.Strategies[simrt.StrategyNames[o.run.Strategy().Kind]]++
		for s := range o.res.States {
			states[s] = struct{}{}
		}
		if o.res.Inconclusive {
			sum.Inconclusive++
		}
		if o.run.Nontrivial(o.res) {
			sum.Nontrivial++
			hashes = append(hashes, mix(o.res.SchedHash, o.run.WorkHash()))
		}
		if o.fail != nil {
			sum.Violations++
			viol++
			if viol <= 8 {
				enc.Encode(Record{Kind: "violation", Case: mkCase(h, job, seed, idx, o)})
			}
		} else if samples < job.Samples && o.run.Nontrivial(o.res) {
			samples++
			// re-run with the log kept so the sample shows its schedule
			o2 := execute(t, h, job, simrt.NewReplay(o.plan), simrt.NewReplay(o.res.SchedTrace), true)
			c := mkCase(h, job, seed, idx, o2)
			if len(c.Schedule) > 40 {
				c.Schedule = append(c.Schedule[:40], fmt.Sprintf("… %d more steps", len(c.Schedule)-40))
			}
			c.Plan, c.Sched = nil, nil
			enc.Encode(Record{Kind: "sample", Case: c})
		}
	}
	for s := range states {
		sum.States = append(sum.States, s)
	}
	sort.Slice(sum.States, func(i, j int) bool { return sum.States[i] < sum.States[j] })
	sum.WallMS = time.Since(start).Milliseconds()
	enc.Encode(Record{Kind: "summary", Summary: sum})
	if job.Hashes != "" {
		buf := make([]byte, 8*len(hashes))
		for i, v := range hashes {
			binary.LittleEndian.PutUint64(buf[i*8:], v)
		}
		os.WriteFile(job.Hashes, buf, 0644)
	}
}

// shrink minimises the plan and schedule traces of job.Replay while the same
// violation class recurs.
func shrink(t *testing.T, h Harness, job *Job) *Case {
	orig := job.Replay
	plan := append([]int(nil), orig.Plan...)
	sched := append([]int(nil), orig.Sched...)
	budget := job.Budget
	if budget <= 0 {
		budget = 1500
	}
	runs := 0
	try := func(p, s []int) (bool, outcome) {
		runs++
		o := execute(t, h, job, simrt.NewReplay(p), simrt.NewReplay(s), false)
		return o.fail != nil && o.fail.Class == orig.Class, o
	}
	ok, best := try(plan, sched)
	if !ok {
		c := *orig
		c.Msg = "NOT REPRODUCED in shrink worker: " + c.Msg
		c.Class = "unreproducible"
		return &c
	}
	// The executed traces may be shorter than the given ones.
	plan, sched = best.plan, best.res.SchedTrace
	reduce := func(tr []int, isPlan bool) []int {
		attempt := func(cand []int) bool {
			if runs >= budget {
				return false
			}
			var ok bool
			var o outcome
			if isPlan {
				ok, o = try(cand, sched)
			} else {
				ok, o = try(plan, cand)
			}
			if ok {
				best = o
			}
			return ok
		}
		// trailing zeros are implicit
		trim := func(x []int) []int {
			for len(x) > 0 && x[len(x)-1] == 0 {
				x = x[:len(x)-1]
			}
			return x
		}
		tr = trim(tr)
		// 1. truncate the tail (rest becomes zeros)
		for cut := len(tr) / 2; cut >= 1; cut /= 2 {
			for len(tr) > cut {
				cand := trim(append([]int(nil), tr[:len(tr)-cut]...))
				if !attempt(cand) {
					break
				}
				tr = cand
			}
		}
		// 2. delete chunks
		for size := 8; size >= 1; size /= 2 {
			for i := 0; i+size <= len(tr); {
				cand := append(append([]int(nil), tr[:i]...), tr[i+size:]...)
				if attempt(trim(cand)) {
					tr = trim(cand)
				} else {
					i += size
				}
				if runs >= budget {
					return tr
				}
			}
		}
		// 3. zero, then lower, single entries
		for i := 0; i < len(tr); i++ {
			if tr[i] == 0 {
				continue
			}
			cand := append([]int(nil), tr...)
			cand[i] = 0
			if attempt(trim(cand)) {
				tr = trim(cand)
				continue
			}
			for v := 1; v < tr[i] && v <= 2; v++ {
				cand := append([]int(nil), tr...)
				cand[i] = v
				if attempt(cand) {
					tr = cand
					break
				}
			}
			if runs >= budget {
				return tr
			}
		}
		return tr
	}
	for pass := 0; pass < 3 && runs < budget; pass++ {
		before := len(plan) + len(sched) + sumInts(plan) + sumInts(sched)
		plan = reduce(plan, true)
		sched = reduce(sched, false)
		if len(plan)+len(sched)+sumInts(plan)+sumInts(sched) == before {
			break
		}
	}
	// final run with the log kept
	o := execute(t, h, job, simrt.NewReplay(plan), simrt.NewReplay(sched), true)
	c := mkCase(h, job, orig.Seed, orig.Index, o)
	c.Plan, c.Sched = plan, sched
	c.Minimised = true
	c.ShrinkRuns = runs
	c.OrigPlanLen, c.OrigSchedLen = len(orig.Plan), len(orig.Sched)
	if o.fail == nil || o.fail.Class != orig.Class {
		c.Class = "unreproducible"
		c.Msg = "minimised trace did not reproduce on the logged re-run"
	}
	return c
}

func sumInts(x []int) int {
	n := 0
	for _, v := range x {
		n += v
	}
	return n
}
