// Package stime is a drop-in for the part of package time that creates timers
// or reads the clock. Inside a simulation the clock is the scheduler's
// simulated clock and timers are scheduler events (see simrt.Timer); outside
// one everything delegates to the real package. All other names are aliases,
// so values still flow to and from the standard library.
package stime

import (
	"time"

	"github.com/goplus/xgo/zsim/simrt"
)

type (
	Duration = time.Duration
	Time     = time.Time
	Month    = time.Month
	Weekday  = time.Weekday
	Location = time.Location
)

const (
	Nanosecond  = time.Nanosecond
	Microsecond = time.Microsecond
	Millisecond = time.Millisecond
	Second      = time.Second
	Minute      = time.Minute
	Hour        = time.Hour

	RFC3339     = time.RFC3339
	RFC3339Nano = time.RFC3339Nano
)

var (
	UTC   = time.UTC
	Local = time.Local
)

func Unix(sec, nsec int64) Time                { return time.Unix(sec, nsec) }
func ParseDuration(s string) (Duration, error) { return time.ParseDuration(s) }
func Date(year int, month Month, day, hour, min, sec, nsec int, loc *Location) Time {
	return time.Date(year, month, day, hour, min, sec, nsec, loc)
}

// epoch is the wall-clock reading at simulated time 0 (fixed: a run must not
// depend on when it is executed).
var epoch = time.Date(2024, 1, 1, 0, 0, 0, 0, time.UTC)

// Now is the simulated clock inside a simulation.
func Now() Time {
	if s := simrt.Active(); s != nil {
		return epoch.Add(time.Duration(s.Now()))
	}
	return time.Now()
}

func Since(t Time) Duration { return Now().Sub(t) }
func Until(t Time) Duration { return t.Sub(Now()) }

// Timer mirrors time.Timer.
type Timer struct {
	C    <-chan Time
	c    chan Time
	sim  *simrt.Timer
	real *time.Timer
}

// AfterFunc runs f in its own goroutine after d.
func AfterFunc(d Duration, f func()) *Timer {
	if s := simrt.Active(); s != nil {
		return &Timer{sim: s.AfterFunc(int64(d), "time.AfterFunc", f)}
	}
	return &Timer{real: time.AfterFunc(d, f)}
}

// NewTimer sends the time on C after d.
func NewTimer(d Duration) *Timer {
	if s := simrt.Active(); s != nil {
		c := make(chan Time, 1)
		t := &Timer{C: c, c: c}
		t.sim = s.AfterDirect(int64(d), "time.NewTimer", func() {
			select {
			case c <- epoch.Add(time.Duration(s.Now())):
			default:
			}
		})
		return t
	}
	rt := time.NewTimer(d)
	return &Timer{C: rt.C, real: rt}
}

func After(d Duration) <-chan Time { return NewTimer(d).C }

// Stop mirrors (*time.Timer).Stop.
func (t *Timer) Stop() bool {
	if t.sim != nil {
		simrt.Yield("timer.Stop")
		return t.sim.Stop()
	}
	return t.real.Stop()
}

// Reset mirrors (*time.Timer).Reset.
func (t *Timer) Reset(d Duration) bool {
	if t.sim != nil {
		simrt.Yield("timer.Reset")
		if t.c != nil {
			select { // Go 1.23 semantics: no stale value after Reset
			case <-t.c:
			default:
			}
		}
		return t.sim.Reset(int64(d))
	}
	return t.real.Reset(d)
}

// Sleep blocks the calling goroutine for d of simulated time.
func Sleep(d Duration) {
	s := simrt.Active()
	if s == nil {
		time.Sleep(d)
		return
	}
	var ev simrt.Event
	s.AfterDirect(int64(d), "time.Sleep", func() { ev.Set() })
	ev.Wait("time.Sleep")
}
