// Package simos is a drop-in for the file-system surface of package os. Every
// call is forwarded to the real os (inside whatever directory the harness
// prepared), but each mutating operation is an observable event: a hook runs
// before and after it (crash points), may fail it with an injected error, and
// writes are split so that "killed in the middle of a write" is a crash point
// too. os.Exit becomes a recoverable panic.
package simos

import (
	"io/fs"
	"os"
	"time"
)

// Re-exported types, constants and values.
type (
	FileMode  = os.FileMode
	FileInfo  = os.FileInfo
	DirEntry  = os.DirEntry
	PathError = os.PathError
	LinkError = os.LinkError
	Signal    = os.Signal
)

const (
	O_RDONLY = os.O_RDONLY
	O_WRONLY = os.O_WRONLY
	O_RDWR   = os.O_RDWR
	O_APPEND = os.O_APPEND
	O_CREATE = os.O_CREATE
	O_EXCL   = os.O_EXCL
	O_SYNC   = os.O_SYNC
	O_TRUNC  = os.O_TRUNC

	ModePerm    = os.ModePerm
	ModeDir     = os.ModeDir
	ModeSymlink = os.ModeSymlink
	ModeType    = os.ModeType

	PathSeparator     = os.PathSeparator
	PathListSeparator = os.PathListSeparator
	DevNull           = os.DevNull
)

var (
	ErrNotExist   = os.ErrNotExist
	ErrExist      = os.ErrExist
	ErrPermission = os.ErrPermission
	ErrClosed     = os.ErrClosed
	ErrInvalid    = os.ErrInvalid
	Args          = os.Args
	Interrupt     = os.Interrupt
	Kill          = os.Kill
)

// Stdin, Stdout and Stderr are the real files (only used as io.Reader/Writer).
var (
	Stdin  = os.Stdin
	Stdout = os.Stdout
	Stderr = os.Stderr
)

// Op is one mutating file-system operation.
type Op struct {
	Seq   int
	Kind  string // create | truncate-open | write | close | chmod | rename | remove | mkdir | link | symlink | truncate | chtimes | sync
	Path  string
	Path2 string
	N     int // bytes (writes), mode (chmod)
}

// Hooks are installed by the harness for the duration of one simulated
// process run.
type Hooks struct {
	// Before runs ahead of the operation; a non-nil error is returned to the
	// caller instead of performing it (for writes: after Partial bytes).
	Before func(op *Op) (inject error, partial int)
	// After runs once the operation has taken effect.
	After func(op *Op)
	// Split returns where to split a write of n bytes (0 or n: no split).
	Split func(n int) int
	// Read runs ahead of read-side operations that a concurrent writer can race
	// with or that may fail: "readfile", "stat", "lstat", "readdir" (path: the directory) and "info" (path: the entry whose
	// attributes are about to be read through a DirEntry of an earlier listing).
	// The harness may change the file system inside the hook (another process
	// working in the directory at that instant); a non-nil error is returned to
	// the caller instead of performing the operation.
	Read func(kind, path string) error
}

var hooks *Hooks
var seq int
var dead bool

// Install sets the hooks (nil: plain pass-through), resets the op counter and
// revives the simulated process.
func Install(h *Hooks) { hooks = h; seq = 0; dead = false }

// KillProcess marks the simulated process as dead: from now on none of its
// file-system calls has any effect (whatever goroutines of it are still
// scheduled find every call failing), until the next Install.
func KillProcess() { dead = true }

// Revive starts a new simulated process (hooks and op counter stay as they are).
func Revive() { dead = false }

// Dead reports whether the simulated process has been killed or has exited.
func Dead() bool { return dead }

var errDead = &os.PathError{Op: "simos", Path: "(process is dead)", Err: os.ErrClosed}

// ExitPanic is the value panicked by Exit.
type ExitPanic struct{ Code int }

// Exit ends the simulated process: nothing it does afterwards has any effect,
// and the calling goroutine unwinds with an ExitPanic.
func Exit(code int) {
	dead = true
	panic(ExitPanic{code})
}

func do(kind, path, path2 string, n int, f func() error) error {
	if dead {
		return errDead
	}
	h := hooks
	if h == nil {
		return f()
	}
	seq++
	op := &Op{Seq: seq, Kind: kind, Path: path, Path2: path2, N: n}
	if h.Before != nil {
		if err, _ := h.Before(op); err != nil {
			return &os.PathError{Op: kind, Path: path, Err: err}
		}
	}
	err := f()
	if h.After != nil {
		h.After(op)
	}
	return err
}

// --- read-only pass-through -----------------------------------------------------

// readHook gives the harness a look at (and a veto over) a read-side operation.
func readHook(kind, path string) error {
	if dead {
		return errDead
	}
	if h := hooks; h != nil && h.Read != nil {
		if err := h.Read(kind, path); err != nil {
			return &os.PathError{Op: kind, Path: path, Err: err}
		}
	}
	return nil
}

func ReadFile(name string) ([]byte, error) {
	if err := readHook("readfile", name); err != nil {
		return nil, err
	}
	return os.ReadFile(name)
}

func Stat(name string) (FileInfo, error) {
	if err := readHook("stat", name); err != nil {
		return nil, err
	}
	return os.Stat(name)
}

func Lstat(name string) (FileInfo, error) {
	if err := readHook("lstat", name); err != nil {
		return nil, err
	}
	return os.Lstat(name)
}
func UserCacheDir() (string, error)              { return os.UserCacheDir() }
func UserConfigDir() (string, error)             { return os.UserConfigDir() }

// ReadDir lists a directory. With a Read hook installed the entries remember
// where they came from, so that Info — a second look at the file system, at a
// later instant — goes through the hook as well.
func ReadDir(name string) ([]DirEntry, error) {
	h := hooks
	if h == nil || h.Read == nil {
		return os.ReadDir(name)
	}
	if err := h.Read("readdir", name); err != nil {
		return nil, &os.PathError{Op: "readdir", Path: name, Err: err}
	}
	ents, err := os.ReadDir(name)
	out := make([]DirEntry, len(ents))
	for i, e := range ents {
		out[i] = hookedEntry{e, name}
	}
	return out, err
}

type hookedEntry struct {
	fs.DirEntry
	dir string
}

func (e hookedEntry) Info() (FileInfo, error) {
	if h := hooks; h != nil && h.Read != nil {
		p := e.dir + "/" + e.Name()
		if err := h.Read("info", p); err != nil {
			return nil, &os.PathError{Op: "lstat", Path: p, Err: err}
		}
	}
	return e.DirEntry.Info()
}
func Readlink(name string) (string, error)       { return os.Readlink(name) }
func Getwd() (string, error)                     { return os.Getwd() }
func Getenv(key string) string                   { return os.Getenv(key) }
func LookupEnv(key string) (string, bool)        { return os.LookupEnv(key) }
func Environ() []string                          { return os.Environ() }
func Getpid() int                                { return os.Getpid() }
func TempDir() string                            { return os.TempDir() }
func UserHomeDir() (string, error)               { return os.UserHomeDir() }
func Executable() (string, error)                { return os.Executable() }
func IsNotExist(err error) bool                  { return os.IsNotExist(err) }
func IsExist(err error) bool                     { return os.IsExist(err) }
func IsPermission(err error) bool                { return os.IsPermission(err) }
func SameFile(a, b FileInfo) bool                { return os.SameFile(a, b) }
func DirFS(dir string) fs.FS                     { return os.DirFS(dir) }
func Chdir(dir string) error                     { return os.Chdir(dir) }
func Setenv(k, v string) error                   { return os.Setenv(k, v) }
func IsPathSeparator(c uint8) bool               { return os.IsPathSeparator(c) }
func Getuid() int                                { return os.Getuid() }
func Hostname() (string, error)                  { return os.Hostname() }

// --- mutating operations ----------------------------------------------------------

func Remove(name string) error {
	return do("remove", name, "", 0, func() error { return os.Remove(name) })
}

func RemoveAll(name string) error {
	return do("remove", name, "", 0, func() error { return os.RemoveAll(name) })
}

func Rename(oldpath, newpath string) error {
	return do("rename", oldpath, newpath, 0, func() error { return os.Rename(oldpath, newpath) })
}

func Chmod(name string, mode FileMode) error {
	return do("chmod", name, "", int(mode), func() error { return os.Chmod(name, mode) })
}

func Chtimes(name string, atime, mtime time.Time) error {
	return do("chtimes", name, "", 0, func() error { return os.Chtimes(name, atime, mtime) })
}

func Chown(name string, uid, gid int) error {
	return do("chown", name, "", 0, func() error { return os.Chown(name, uid, gid) })
}

func Mkdir(name string, perm FileMode) error {
	return do("mkdir", name, "", int(perm), func() error { return os.Mkdir(name, perm) })
}

func MkdirAll(name string, perm FileMode) error {
	return do("mkdir", name, "", int(perm), func() error { return os.MkdirAll(name, perm) })
}

func Link(oldname, newname string) error {
	return do("link", oldname, newname, 0, func() error { return os.Link(oldname, newname) })
}

func Symlink(oldname, newname string) error {
	return do("symlink", oldname, newname, 0, func() error { return os.Symlink(oldname, newname) })
}

func Truncate(name string, size int64) error {
	return do("truncate", name, "", int(size), func() error { return os.Truncate(name, size) })
}

func MkdirTemp(dir, pattern string) (string, error) {
	var out string
	err := do("mkdir", dir+"/"+pattern, "", 0, func() error {
		var e error
		out, e = os.MkdirTemp(dir, pattern)
		return e
	})
	return out, err
}

// File wraps *os.File.
type File struct {
	f    *os.File
	name string
}

func wrap(f *os.File, err error) (*File, error) {
	if err != nil {
		return nil, err
	}
	return &File{f: f, name: f.Name()}, nil
}

// NewFile wraps a real file.
func NewFile(fd uintptr, name string) *File {
	f := os.NewFile(fd, name)
	if f == nil {
		return nil
	}
	return &File{f: f, name: name}
}

func Open(name string) (*File, error) { return wrap(os.Open(name)) }

func Create(name string) (*File, error) {
	return OpenFile(name, O_RDWR|O_CREATE|O_TRUNC, 0666)
}

func OpenFile(name string, flag int, perm FileMode) (*File, error) {
	if flag&(O_CREATE|O_TRUNC) == 0 {
		return wrap(os.OpenFile(name, flag, perm))
	}
	kind := "create"
	if flag&O_TRUNC != 0 {
		kind = "truncate-open"
	}
	var out *File
	err := do(kind, name, "", int(perm), func() error {
		var e error
		out, e = wrap(os.OpenFile(name, flag, perm))
		return e
	})
	return out, err
}

func CreateTemp(dir, pattern string) (*File, error) {
	var out *File
	err := do("create", dir+"/"+pattern+"*", "", 0600, func() error {
		var e error
		out, e = wrap(os.CreateTemp(dir, pattern))
		return e
	})
	return out, err
}

// WriteFile behaves like os.WriteFile: open with truncation, write, close —
// three kinds of crash point.
func WriteFile(name string, data []byte, perm FileMode) error {
	f, err := OpenFile(name, O_WRONLY|O_CREATE|O_TRUNC, perm)
	if err != nil {
		return err
	}
	_, err = f.Write(data)
	if err1 := f.Close(); err1 != nil && err == nil {
		err = err1
	}
	return err
}

func (f *File) Name() string                                   { return f.name }
func (f *File) Read(b []byte) (int, error)                     { return f.f.Read(b) }
func (f *File) ReadAt(b []byte, off int64) (int, error)        { return f.f.ReadAt(b, off) }
func (f *File) Seek(offset int64, whence int) (int64, error)   { return f.f.Seek(offset, whence) }
func (f *File) Stat() (FileInfo, error)                        { return f.f.Stat() }
func (f *File) Fd() uintptr                                    { return f.f.Fd() }
func (f *File) ReadDir(n int) ([]DirEntry, error)              { return f.f.ReadDir(n) }
func (f *File) Readdir(n int) ([]FileInfo, error)              { return f.f.Readdir(n) }
func (f *File) Readdirnames(n int) ([]string, error)           { return f.f.Readdirnames(n) }
func (f *File) SetDeadline(t time.Time) error                  { return f.f.SetDeadline(t) }

func (f *File) Close() error {
	return do("close", f.name, "", 0, func() error { return f.f.Close() })
}

func (f *File) Sync() error {
	return do("sync", f.name, "", 0, func() error { return f.f.Sync() })
}

func (f *File) Chmod(mode FileMode) error {
	return do("chmod", f.name, "", int(mode), func() error { return f.f.Chmod(mode) })
}

func (f *File) Truncate(size int64) error {
	return do("truncate", f.name, "", int(size), func() error { return f.f.Truncate(size) })
}

func (f *File) WriteString(s string) (int, error) { return f.Write([]byte(s)) }

func (f *File) WriteAt(b []byte, off int64) (int, error) {
	var n int
	err := do("write", f.name, "", len(b), func() error {
		var e error
		n, e = f.f.WriteAt(b, off)
		return e
	})
	return n, err
}

// Write writes b in one or two pieces with a crash point in between; an
// injected error may stop it after a prefix.
func (f *File) Write(b []byte) (int, error) {
	if dead {
		return 0, errDead
	}
	h := hooks
	if h == nil {
		return f.f.Write(b)
	}
	seq++
	op := &Op{Seq: seq, Kind: "write", Path: f.name, N: len(b)}
	limit := len(b)
	var inject error
	if h.Before != nil {
		if err, partial := h.Before(op); err != nil {
			inject = err
			if partial < 0 {
				partial = 0
			}
			if partial > len(b) {
				partial = len(b)
			}
			limit = partial
		}
	}
	written := 0
	split := 0
	if h.Split != nil && limit > 1 {
		split = h.Split(limit)
	}
	if split > 0 && split < limit {
		n, err := f.f.Write(b[:split])
		written += n
		if err != nil {
			return written, err
		}
		if h.After != nil {
			h.After(&Op{Seq: op.Seq, Kind: "write-part", Path: f.name, N: split})
		}
	}
	if written < limit {
		n, err := f.f.Write(b[written:limit])
		written += n
		if err != nil {
			return written, err
		}
	}
	if h.After != nil {
		h.After(op)
	}
	if inject != nil {
		return written, &os.PathError{Op: "write", Path: f.name, Err: inject}
	}
	return written, nil
}
