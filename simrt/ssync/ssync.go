// Package ssync is a drop-in for package sync whose primitives live inside
// the simulation scheduler. With no simulation active every type delegates to
// the real package (pass-through mode).
package ssync

import (
	"fmt"
	"sync"

	"github.com/goplus/xgo/zsim/simrt"
)

// Locker is sync.Locker.
type Locker = sync.Locker

// Map, Pool are not owned by the simulator.
type (
	Map  = sync.Map
	Pool = sync.Pool
)

// Mutex is a simulated sync.Mutex.
type Mutex struct {
	real   sync.Mutex
	locked bool
	w      simrt.WaitList
}

func (m *Mutex) Lock() {
	s := simrt.Active()
	if s == nil {
		m.real.Lock()
		return
	}
	simrt.Yield("Mutex.Lock")
	for m.locked {
		m.w.Wait(s, "mutex")
	}
	m.locked = true
}

func (m *Mutex) TryLock() bool {
	s := simrt.Active()
	if s == nil {
		return m.real.TryLock()
	}
	simrt.Yield("Mutex.TryLock")
	if m.locked {
		return false
	}
	m.locked = true
	return true
}

func (m *Mutex) Unlock() {
	s := simrt.Active()
	if s == nil {
		m.real.Unlock()
		return
	}
	if !m.locked {
		s.SetFailure(&simrt.Failure{Class: "misuse", Msg: "sync: unlock of unlocked mutex", Sites: []string{"Mutex.Unlock"}})
		simrt.Abort()
	}
	m.locked = false
	m.w.WakeAll(s)
	// A release is a place where the OS may preempt: whatever the goroutine
	// does next without holding the lock can interleave with the new owner.
	simrt.Yield("Mutex.Unlock")
}

// RWMutex is a simulated sync.RWMutex (writer preference is not modelled; any
// admissible order may be chosen by the scheduler).
type RWMutex struct {
	real    sync.RWMutex
	writer  bool
	readers int
	w       simrt.WaitList
}

func (m *RWMutex) Lock() {
	s := simrt.Active()
	if s == nil {
		m.real.Lock()
		return
	}
	simrt.Yield("RWMutex.Lock")
	for m.writer || m.readers > 0 {
		m.w.Wait(s, "rwmutex")
	}
	m.writer = true
}

func (m *RWMutex) Unlock() {
	s := simrt.Active()
	if s == nil {
		m.real.Unlock()
		return
	}
	if !m.writer {
		s.SetFailure(&simrt.Failure{Class: "misuse", Msg: "sync: Unlock of unlocked RWMutex", Sites: []string{"RWMutex.Unlock"}})
		simrt.Abort()
	}
	m.writer = false
	m.w.WakeAll(s)
	simrt.Yield("RWMutex.Unlock")
}

func (m *RWMutex) RLock() {
	s := simrt.Active()
	if s == nil {
		m.real.RLock()
		return
	}
	simrt.Yield("RWMutex.RLock")
	for m.writer {
		m.w.Wait(s, "rwmutex")
	}
	m.readers++
}

func (m *RWMutex) RUnlock() {
	s := simrt.Active()
	if s == nil {
		m.real.RUnlock()
		return
	}
	if m.readers <= 0 {
		s.SetFailure(&simrt.Failure{Class: "misuse", Msg: "sync: RUnlock of unlocked RWMutex", Sites: []string{"RWMutex.RUnlock"}})
		simrt.Abort()
	}
	m.readers--
	m.w.WakeAll(s)
	simrt.Yield("RWMutex.RUnlock")
}

// RLocker returns a Locker for the read side.
func (m *RWMutex) RLocker() Locker { return (*rlocker)(m) }

type rlocker RWMutex

func (r *rlocker) Lock()   { (*RWMutex)(r).RLock() }
func (r *rlocker) Unlock() { (*RWMutex)(r).RUnlock() }

// Cond is a simulated sync.Cond. Signal wakes a waiter chosen by the choice
// source; there are no spurious wake-ups (sync.Cond documents none).
type Cond struct {
	L    Locker
	real *sync.Cond
	once sync.Once
	w    simrt.WaitList
}

// NewCond returns a new Cond with Locker l.
func NewCond(l Locker) *Cond { return &Cond{L: l} }

func (c *Cond) rc() *sync.Cond {
	c.once.Do(func() { c.real = sync.NewCond(c.L) })
	return c.real
}

func (c *Cond) Wait() {
	s := simrt.Active()
	if s == nil {
		c.rc().Wait()
		return
	}
	// Enqueue before unlocking, as sync.Cond does, so a Signal issued right
	// after the unlock cannot be missed.
	tk := c.w.Enqueue(s)
	c.L.Unlock()
	c.w.Block(s, tk, "cond")
	c.L.Lock()
}

func (c *Cond) Signal() {
	s := simrt.Active()
	if s == nil {
		c.rc().Signal()
		return
	}
	simrt.Yield("Cond.Signal")
	c.w.WakeOne(s)
}

func (c *Cond) Broadcast() {
	s := simrt.Active()
	if s == nil {
		c.rc().Broadcast()
		return
	}
	simrt.Yield("Cond.Broadcast")
	c.w.WakeAll(s)
}

// WaitGroup is a simulated sync.WaitGroup.
type WaitGroup struct {
	real sync.WaitGroup
	n    int
	w    simrt.WaitList
}

func (wg *WaitGroup) Add(delta int) {
	s := simrt.Active()
	if s == nil {
		wg.real.Add(delta)
		return
	}
	simrt.Yield("WaitGroup.Add")
	wg.n += delta
	if wg.n < 0 {
		s.SetFailure(&simrt.Failure{Class: "misuse", Msg: "sync: negative WaitGroup counter", Sites: []string{"WaitGroup.Add"}})
		simrt.Abort()
	}
	if wg.n == 0 {
		wg.w.WakeAll(s)
	}
}

func (wg *WaitGroup) Done() { wg.Add(-1) }

func (wg *WaitGroup) Wait() {
	s := simrt.Active()
	if s == nil {
		wg.real.Wait()
		return
	}
	simrt.Yield("WaitGroup.Wait")
	for wg.n > 0 {
		wg.w.Wait(s, "waitgroup")
	}
}

// Once is a simulated sync.Once.
type Once struct {
	real    sync.Once
	done    bool
	running bool
	w       simrt.WaitList
}

func (o *Once) Do(f func()) {
	s := simrt.Active()
	if s == nil {
		o.real.Do(f)
		return
	}
	simrt.Yield("Once.Do")
	for o.running {
		o.w.Wait(s, "once")
	}
	if o.done {
		return
	}
	o.running = true
	defer func() {
		o.done = true
		o.running = false
		o.w.WakeAll(s)
	}()
	f()
}

// OnceFunc mirrors sync.OnceFunc.
func OnceFunc(f func()) func() {
	var o Once
	return func() { o.Do(f) }
}

var _ = fmt.Sprint
