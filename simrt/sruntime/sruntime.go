// Package sruntime stands in for the few functions of package runtime that the
// instrumented packages call. Finalizers are not set inside a simulation: they
// would fire on the garbage collector's schedule, outside the simulator's
// control, and (in x/jsonrpc2's idleListenerConn) panic in a goroutine that no
// run owns when a run is abandoned with connections still open.
package sruntime

import (
	"runtime"

	"github.com/goplus/xgo/zsim/simrt"
)

// SetFinalizer is runtime.SetFinalizer outside a simulation and does nothing
// inside one (clearing the finalizer of an object that has none is legal).
func SetFinalizer(obj interface{}, finalizer interface{}) {
	if simrt.Active() != nil {
		return
	}
	runtime.SetFinalizer(obj, finalizer)
}

func Gosched()          { simrt.Yield("runtime.Gosched"); runtime.Gosched() }
func NumGoroutine() int { return runtime.NumGoroutine() }
func GC()               { runtime.GC() }

func Stack(buf []byte, all bool) int { return runtime.Stack(buf, all) }
