// Package sruntime stands in for the few functions of package runtime that the
// instrumented packages call. Finalizers are not set inside a simulation: they
// would fire on the garbage collector's schedule, outside the simulator's
// control, and (in x/jsonrpc2's idleListenerConn) panic in a goroutine that no
// run owns when a run is abandoned with connections still open.
package sruntime

import (
	"runtime"

	"github.com/goplus/xgo/zsim/simrt"
)

// SetFinalizer is runtime.SetFinalizer outside a simulation and does nothing
// inside one (clearing the finalizer of an object that has none is legal).
func SetFinalizer(obj interface{}, finalizer interface{}) {
	if simrt.Active() != nil {
		return
	}
	runtime.SetFinalizer(obj, finalizer)
}

// GOMAXPROCS and NumCPU report the simulated machine's size inside a simulation
// (a per-run knob of the harness: code that sizes worker pools by it must work
// for every value), the real one outside. Setting it has no effect there.
func GOMAXPROCS(n int) int {
	if s := simrt.Active(); s != nil && s.CPUs() > 0 {
		return s.CPUs()
	}
	return runtime.GOMAXPROCS(n)
}

func NumCPU() int {
	if s := simrt.Active(); s != nil && s.CPUs() > 0 {
		return s.CPUs()
	}
	return runtime.NumCPU()
}

const (
	GOOS     = runtime.GOOS
	GOARCH   = runtime.GOARCH
	Compiler = runtime.Compiler
)

type (
	Frame    = runtime.Frame
	Frames   = runtime.Frames
	Func     = runtime.Func
	MemStats = runtime.MemStats
	Error    = runtime.Error
)

func Version() string                              { return runtime.Version() }
func GOROOT() string                               { return runtime.GOROOT() }
func KeepAlive(x interface{})                      { runtime.KeepAlive(x) }
func Caller(skip int) (uintptr, string, int, bool) { return runtime.Caller(skip + 1) }
func Callers(skip int, pc []uintptr) int           { return runtime.Callers(skip+1, pc) }
func CallersFrames(callers []uintptr) *Frames      { return runtime.CallersFrames(callers) }
func FuncForPC(pc uintptr) *Func                   { return runtime.FuncForPC(pc) }
func ReadMemStats(m *MemStats)                     { runtime.ReadMemStats(m) }
func Goexit()                                      { runtime.Goexit() }
func LockOSThread()                                {}
func UnlockOSThread()                              {}

func Gosched()          { simrt.Yield("runtime.Gosched"); runtime.Gosched() }
func NumGoroutine() int { return runtime.NumGoroutine() }
func GC()               { runtime.GC() }

func Stack(buf []byte, all bool) int { return runtime.Stack(buf, all) }
