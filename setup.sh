#!/bin/sh
# Build the verification driver from files on disk only (offline).
set -e
cd "$(dirname "$0")"
exec ./check build
