#!/bin/sh
# usage: mkmut.sh <out.diff> <repo-relative file> <old text> <new text>   (old must occur exactly once)
set -e
W=$(mktemp -d); trap 'rm -rf $W' EXIT
mkdir -p $W/a/$(dirname $2) $W/b/$(dirname $2); cp /repo/$2 $W/a/$2; cp /repo/$2 $W/b/$2
python3 - "$W/b/$2" "$3" "$4" <<'PY'
import sys
p,old,new=sys.argv[1:4]; s=open(p).read()
assert s.count(old)==1, (s.count(old), old)
open(p,'w').write(s.replace(old,new))
PY
(cd $W && diff -u a/$2 b/$2 > $1 || true)
