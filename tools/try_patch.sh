#!/bin/sh
# usage: try_patch.sh <patch.diff> <property> [tier]   — runs a check against a scratch copy of /repo with the patch applied
set -e
P=$(readlink -f "$1"); ID=$2; TIER=${3:-quick}
D=$(mktemp -d /dev/shm/mut-XXXXXX)
trap 'rm -rf "$D"' EXIT
rsync -a --exclude .git /repo/ "$D/repo/"
(cd "$D/repo" && patch -p1 -s < "$P")
cd /verif
set +e
VERIF_REPO="$D/repo" VERIF_NOEVIDENCE=1 ./check "$ID" "$TIER"
echo "exit=$?"
