#!/bin/bash
# usage: confirm_seeded.sh <name> <agent worktree> <test pkgs> <demo-cmd>
# Re-confirms a sub-agent's seeded change in a fresh scratch worktree of /repo HEAD:
# builds, runs the touched packages' tests, runs the demonstration with the change (must fail) and without (must pass).
set -u
NAME=$1; SRC=$2; PKGS=$3; DEMO=$4
export GOFLAGS=-mod=mod GOPROXY=off GOSUMDB=off GOTOOLCHAIN=local
W=/tmp/wt/confirm-$NAME
git -C /repo worktree remove --force $W 2>/dev/null
git -C /repo worktree add -q --detach $W ${BASE:-HEAD} || exit 2
trap 'git -C /repo worktree remove --force $W' EXIT
cp -r $SRC/_demo $W/_demo
cd $W
git apply _demo/patch.diff || { echo "RESULT $NAME: patch does not apply"; exit 1; }
go build $(go list ./... | grep -v /demo/) 2>&1 | tail -3; B=${PIPESTATUS[0]}
go test -vet=off -count=1 $PKGS 2>&1 | grep -E "^(ok|FAIL|---)" | head -5; T=${PIPESTATUS[0]}
bash -c "$DEMO" > /tmp/confirm-$NAME-with.log 2>&1; DW=$?
git apply -R _demo/patch.diff
bash -c "$DEMO" > /tmp/confirm-$NAME-without.log 2>&1; DO=$?
echo "RESULT $NAME: build=$B tests=$T demo_with_change=$DW (want !=0) demo_without=$DO (want 0)"
