#!/usr/bin/env python3
"""usage: save_seeded.py <wt name> <dir name under seeded/> <property> <mutant file name> <wave> <change> <needs> <demo cmd> <outcome>
Copies /tmp/wt/<wt>/_demo/{patch.diff, demonstration files} to seeded/<dir>/, writes meta.json, and links the patch as mutants/<ID>/<mutant>.diff."""
import json, os, shutil, sys
wt, name, pid, mut, wave, change, needs, demo, outcome = sys.argv[1:10]
here = os.path.dirname(os.path.dirname(os.path.abspath(__file__)))
src = '/tmp/wt/%s/_demo' % wt
dst = os.path.join(here, 'seeded', name)
os.makedirs(dst, exist_ok=True)
for f in os.listdir(src):
    p = os.path.join(src, f)
    if os.path.isfile(p) and os.path.getsize(p) < 200000 and not f.endswith(('.test', '.out', '.log')):
        shutil.copy(p, os.path.join(dst, f))
meta = {
    "property": pid, "change": change, "needs_to_manifest": needs, "demonstration_cmd": "(in a worktree of /repo with _demo copied in) " + demo,
    "confirmed": "tools/confirm_seeded.sh %s /tmp/wt/%s ...: applied to a fresh worktree of /repo HEAD, all non-demo packages build, tests of the touched packages pass, demonstration fails with the change and passes without it" % (wt, wt),
    "source": "independent sub-agent (wave %s) given only the property text and a list of ideas already used" % wave,
    "check_outcome": outcome,
}
json.dump(meta, open(os.path.join(dst, 'meta.json'), 'w'), indent=1)
shutil.copy(os.path.join(src, 'patch.diff'), os.path.join(here, 'mutants', pid, mut + '.diff'))
print('saved', dst)
