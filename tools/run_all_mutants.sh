#!/bin/sh
# usage: run_all_mutants.sh [ids...]   — runs tools/run_mutants.sh for each property (default: all seven), one after the other
cd "$(dirname "$0")/.."
IDS=${*:-C26 C36 C39 C40 C38 C41 C08}
for id in $IDS; do tools/run_mutants.sh $id; done
