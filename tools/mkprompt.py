#!/usr/bin/env python3
"""usage: mkprompt.py <property id> <worktree name> <extra text file or '-'>  -> writes /tmp/prompts/<worktree name>.txt

The prompt given to an independent sub-agent that is asked for a property-breaking change.
It contains the property text and the path of the agent's private worktree, nothing from /verif
except the list of ideas that earlier agents already used (so that it looks elsewhere)."""
import json, os, sys

TMPL = '''You are helping test a verification framework for the Go repository goplus/gop (module github.com/goplus/xgo). Your job: produce ONE realistic, subtle code change (a "seeded bug") that BREAKS the semantic property below while the repository still compiles and its existing test suite still passes.

PROPERTY {id}: {title}
Statement: {statement}
Quantified over: {qtext}
Code it is anchored in: {files}

Your private scratch git worktree of the repository is {wt} (work ONLY there; never touch /repo or /verif, and do not read anything under /verif). The sandbox is offline. Before every shell command run:
  export GOFLAGS=-mod=mod GOPROXY=off GOSUMDB=off GOTOOLCHAIN=local
(the default `go` is 1.23.5; the environment does not persist between commands).

Requirements for the change:
1. It edits non-test source files of the repository only (under {wt}), is small (a few lines to a few dozen), and looks like a plausible maintainer edit / refactor / "optimisation" — not sabotage that ordinary use would expose at once.
2. It must need something SPECIFIC to manifest: a particular interleaving of goroutines, a crash or I/O fault at a particular point, a multi-step sequence of operations, an unusual input, or two cooperating edits that each look fine alone. Prefer that kind over blunt breakage.
3. With the change, `go build ./...` succeeds (the five demo/ packages that fail to build on unchanged code do not count) and the existing tests of the packages you touched (and packages that depend on them) still pass: run at least `go test -vet=off -count=1 <the touched package and its dependents' test packages>` (for x/jsonrpc2 that is ./x/jsonrpc2/...; for others find users with grep). Do not edit or add tests in the repository tree itself to make this true.
4. Write a DEMONSTRATION outside the repository source files: a Go test file or small program placed in {wt}/_demo/ (or as a *_test.go you copy into the package directory only while running it, then remove), that FAILS (or hangs with a timeout, or shows the wrong result) with your change and PASSES on the unchanged code. The demonstration may orchestrate goroutines, fake readers/writers, kill processes etc. as needed; it should be deterministic or at least fail with high probability in a loop.
5. Leave the change applied in the worktree as uncommitted modifications, and save `git diff` to {wt}/_demo/patch.diff (make sure _demo itself is not part of the diff).

Report back, concisely: the diff, why it breaks the property, exactly what is needed for it to manifest, the commands you ran (build, tests, demo with and without the change) and their results. {extra} IMPORTANT: do not use `git stash` (the stash is shared between worktrees); compare with/without your change using `git diff > _demo/patch.diff`, `git apply -R _demo/patch.diff` and `git apply _demo/patch.diff`. The machine is busy: give long-running test commands generous timeouts. Be creative: the obvious ideas are listed as taken; find a mechanism of a different kind.'''


def main():
    pid, wt, extra = sys.argv[1], sys.argv[2], sys.argv[3]
    here = os.path.dirname(os.path.abspath(__file__))
    props = {json.loads(l)['id']: json.loads(l) for l in open(os.path.join(here, '..', 'properties.jsonl'))}
    p = props[pid]
    ex = '' if extra == '-' else open(extra).read().strip()
    s = TMPL.format(id=pid, title=p['title'], statement=p['statement'], qtext=p['quantifier']['text'],
                    files=', '.join(p['anchors']['files']), wt='/tmp/wt/' + wt, extra=ex)
    os.makedirs('/tmp/prompts', exist_ok=True)
    open('/tmp/prompts/%s.txt' % wt, 'w').write(s)


if __name__ == '__main__':
    main()
