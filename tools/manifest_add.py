#!/usr/bin/env python3
# usage: manifest_add.py <id> <category> <technique> <text> <note> <design_ref>
import json,sys
id,cat,tech,text,note,ref=sys.argv[1:7]
m=json.load(open('/verif/MANIFEST.json'))
m['checks']=[c for c in m['checks'] if c['property_id']!=id]
m['checks'].append({"property_id":id,"quick_cmd":"./check %s quick"%id,"thorough_cmd":"./check %s thorough"%id,
 "evidence_file":"/verif/evidence/%s.json"%id,"replay_cmd_template":"./check replay {path}","engine":"simrt",
 "level_claimed":{"category":cat,"text":text,"design_ref":ref},"level_note":note,"technique":tech})
m['checks'].sort(key=lambda c:c['property_id'])
m['not_applicable']=[n for n in m.get('not_applicable',[]) if n['property_id']!=id]
for e in m['engines']:
    if e['name']=='simrt' and id not in e['serves_properties']:
        e['serves_properties'].append(id); e['serves_properties'].sort()
json.dump(m,open('/verif/MANIFEST.json','w'),indent=1)
