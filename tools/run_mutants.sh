#!/bin/sh
# usage: run_mutants.sh <ID> [runs]   — runs the quick check against every mutants/<ID>/*.diff; prints caught/SURVIVED per mutant
ID=$1; RUNS=${2:-}
cd "$(dirname "$0")/.."
for m in mutants/$ID/*.diff; do
  out=$(VERIF_RUNS=$RUNS tools/try_patch.sh "$m" "$ID" 2>&1)
  rc=$(echo "$out" | sed -n 's/^exit=//p' | tail -1)
  cls=$(echo "$out" | sed -n 's/^  class: //p' | sort -u | tr '\n' ',')
  case "$rc" in
    1) echo "caught   $m [$cls]";;
    0) echo "SURVIVED $m";;
    *) echo "INFRA($rc) $m: $(echo "$out" | grep INFRA | head -2 | tr '\n' ' ')";;
  esac
done
