package c08_test

// C08 — compilation output is deterministic. The real parser, cl.NewPackage
// and gogen compile a package repeatedly inside one process while the
// simulator owns every source of order the statement names: the iteration
// order at each `range`-over-map site of the compile path (xgo cl, parser,
// ast, ... and gogen, instrumented through detmap), the order in which the
// directory listing presents the files, and the position of the compile among
// other compiles sharing an importer and a file set. Output bytes and the
// error list must equal those of a canonical run.

import (
	"bytes"
	"fmt"
	"os"
	"path/filepath"
	"sort"
	"strings"
	"testing"

	"github.com/goplus/mod/env"
	"github.com/goplus/mod/modfile"
	"github.com/goplus/xgo/cl"
	"github.com/goplus/xgo/parser"
	"github.com/goplus/xgo/parser/fsx/memfs"
	"github.com/goplus/xgo/token"
	"github.com/goplus/xgo/tool"
	"github.com/goplus/xgo/zsim/simrt"
	"github.com/goplus/xgo/zsim/simrt/detmap"
	"github.com/goplus/xgo/zsim/simrt/harn"
	"github.com/qiniu/x/errors"
)

type c08 struct{}

func (c08) Name() string { return "C08" }

// lookupClass hands out the SAME *Project for an extension on every call, as
// xgomod.Module.LookupClass and the registry of x/build do (anything cached by
// project pointer inside the compiler therefore survives from one compile to
// the next).
var projectTable = map[string]*modfile.Project{}

func lookupClass(ext string) (c *modfile.Project, ok bool) {
	if c, ok = projectTable[ext]; ok {
		return c, true
	}
	c, ok = newProject(ext)
	if ok {
		for _, w := range c.Works {
			projectTable[w.Ext] = c
		}
		projectTable[c.Ext] = c
		projectTable[ext] = c
	}
	return
}

func newProject(ext string) (c *modfile.Project, ok bool) {
	switch ext {
	case ".tgmx", ".tspx":
		return &modfile.Project{
			Ext: ".tgmx", Class: "*MyGame",
			Works:    []*modfile.Class{{Ext: ".tspx", Class: "Sprite"}},
			PkgPaths: []string{"github.com/goplus/xgo/cl/internal/spx", "math"}}, true
	case ".t2gmx", ".t2spx":
		return &modfile.Project{
			Ext: ".t2gmx", Class: "Game",
			Works:    []*modfile.Class{{Ext: ".t2spx", Class: "Sprite"}},
			PkgPaths: []string{"github.com/goplus/xgo/cl/internal/spx2"}}, true
	case ".t4gmx", ".t4spx":
		return &modfile.Project{
			Ext: ".t4gmx", Class: "*MyGame",
			Works:    []*modfile.Class{{Ext: ".t4spx", Class: "Sprite"}},
			PkgPaths: []string{"github.com/goplus/xgo/cl/internal/spx4", "math"}}, true
	case "_spx.gox":
		return &modfile.Project{
			Ext: "_spx.gox", Class: "Game",
			Works:    []*modfile.Class{{Ext: "_spx.gox", Class: "Sprite"}},
			PkgPaths: []string{"github.com/goplus/xgo/cl/internal/spx3", "math"},
			Import:   []*modfile.Import{{Path: "github.com/goplus/xgo/cl/internal/spx3/jwt"}}}, true
	case "_mcp.gox", "_tool.gox", "_prompt.gox":
		return &modfile.Project{
			Ext: "_mcp.gox", Class: "Game",
			Works: []*modfile.Class{
				{Ext: "_tool.gox", Class: "Tool", Proto: "ToolProto", Prefix: "Tool_"},
				{Ext: "_prompt.gox", Class: "Prompt", Proto: "PromptProto", Embedded: true},
				{Ext: "_res.gox", Class: "Resource", Proto: "ResourceProto"},
			},
			PkgPaths: []string{"github.com/goplus/xgo/cl/internal/mcp"}}, true
	}
	return
}

func classKind(fname string) (isProj bool, ok bool) {
	ext := modfile.ClassExt(fname)
	c, ok := lookupClass(ext)
	if ok {
		isProj = c.IsProj(ext, fname)
	}
	return
}

// --- workloads ---------------------------------------------------------------------

type pkgSrc struct {
	name     string
	files    map[string]string
	autoMain bool // compile with NoAutoGenMain off
}

var corpusDirs = []string{"cl/_testspx/basic", "cl/_testspx/init", "cl/_testspx/multiworks", "cl/_testspx/newobj", "cl/_testspx/nogame", "cl/_testspx/singlework"}

var repoRoot string

func loadCorpus(dir string) (*pkgSrc, error) {
	p := &pkgSrc{name: dir, files: map[string]string{}}
	ents, err := os.ReadDir(filepath.Join(repoRoot, dir))
	if err != nil {
		return nil, err
	}
	for _, e := range ents {
		if e.IsDir() || e.Name() == "out.go" {
			continue
		}
		b, err := os.ReadFile(filepath.Join(repoRoot, dir, e.Name()))
		if err != nil {
			return nil, err
		}
		p.files[e.Name()] = string(b)
	}
	return p, nil
}

// genPackage builds a multi-file package of mutually referring declarations
// spread over XGo and Go files, with overload sets and a seeded number of
// conflicting or erroneous declarations (so that error lists are compared).
func genPackage(plan *simrt.Source) *pkgSrc {
	nx := 1 + plan.Draw(3)
	ng := plan.Draw(4)
	nd := 4 + plan.Draw(10)
	type file struct {
		name    string
		xgo     bool
		body    []string
		imports string
	}
	var files []*file
	for i := 0; i < nx; i++ {
		files = append(files, &file{name: fmt.Sprintf("%c_x%d.xgo", 'a'+plan.Draw(6), i), xgo: true})
	}
	for i := 0; i < ng; i++ {
		files = append(files, &file{name: fmt.Sprintf("%c_g%d.go", 'a'+plan.Draw(6), i)})
	}
	pick := func() *file { return files[plan.Draw(len(files))] }
	pickX := func() *file { return files[plan.Draw(nx)] }
	for d := 0; d < nd; d++ {
		o := (d + 1 + plan.Draw(nd)) % nd // another declaration index
		switch plan.Draw(6) {
		case 0:
			f := pick()
			f.body = append(f.body, fmt.Sprintf("type T%d struct {\n\tA int\n\tB *T%d\n}\n\nfunc (p *T%d) M%d() int {\n\treturn p.A + F%d(1)\n}", d, o, d, d, o))
		case 1:
			f := pick()
			f.body = append(f.body, fmt.Sprintf("type T%d struct {\n\tA int\n}", d))
		}
		// every index has F, C and V so references always resolve
		ff := pick()
		ff.body = append(ff.body, fmt.Sprintf("func F%d(x int) int {\n\treturn x + C%d\n}", d, o))
		fc := pick()
		fc.body = append(fc.body, fmt.Sprintf("const C%d = %d", d, d*3+1))
		fv := pick()
		fv.body = append(fv.body, fmt.Sprintf("var V%d = F%d(C%d)", d, o, d))
		if plan.Chance(300) {
			fx := pickX()
			fx.body = append(fx.body, fmt.Sprintf("func AddI%d(a, b int) int {\n\treturn a + b\n}\n\nfunc AddS%d(a, b string) string {\n\treturn a + b\n}\n\nfunc Add%d = (\n\tAddI%d\n\tAddS%d\n)\n\nvar R%d = Add%d(V%d, 1)\nvar S%d = Add%d(\"a\", \"b\")", d, d, d, d, d, d, d, o, d, d))
		}
	}
	// standard-library imports, several per file, in different combinations per file
	stdlib := [][2]string{{"fmt", "fmt.Sprint(%d)"}, {"strings", "strings.Repeat(\"x\", %d)"}, {"strconv", "strconv.Itoa(%d)"}, {"os", "os.Getenv(\"V%d\")"}, {"path", "path.Base(\"/a/b%d\")"}, {"errors", "errors.New(\"e%d\").Error()"}}
	if plan.Chance(500) {
		for fi, f := range files {
			k := plan.Draw(len(stdlib) + 1)
			if k == 0 {
				continue
			}
			var imps, uses []string
			for j := 0; j < k; j++ {
				lib := stdlib[(fi+j*2+plan.Draw(2))%len(stdlib)]
				dup := false
				for _, x := range imps {
					if x == lib[0] {
						dup = true
					}
				}
				if dup {
					continue
				}
				imps = append(imps, lib[0])
				uses = append(uses, fmt.Sprintf(lib[1], fi*10+j))
			}
			f.imports = "import (\n"
			for _, x := range imps {
				f.imports += "\t\"" + x + "\"\n"
			}
			f.imports += ")\n\n"
			f.body = append(f.body, fmt.Sprintf("func Lib%d() string {\n\treturn %s\n}", fi, strings.Join(uses, " + ")))
		}
	}
	// errors: duplicates across files, undefined names, type errors
	nerr := 0
	if plan.Chance(650) {
		nerr = 1 + plan.Draw(4)
	}
	for e := 0; e < nerr; e++ {
		f := pick()
		k := plan.Draw(nd)
		switch plan.Draw(5) {
		case 0:
			f.body = append(f.body, fmt.Sprintf("func F%d() {\n}", k)) // redeclared
		case 1:
			f.body = append(f.body, fmt.Sprintf("var C%d = \"dup\"", k)) // redeclared
		case 2:
			f.body = append(f.body, fmt.Sprintf("var U%d = Undefined%d(1)", e, e))
		case 3:
			f.body = append(f.body, fmt.Sprintf("var W%d int = \"str%d\"", e, e))
		case 4:
			f.body = append(f.body, fmt.Sprintf("type T%d int", k)) // maybe redeclared
		}
	}
	if plan.Chance(250) {
		files = append(files, &file{name: "z_test.xgo", xgo: true, body: []string{"func TestGen(t *testing.T) {\n\tif F0(1) < 0 {\n\t\tt.Fatal(\"neg\")\n\t}\n}"}, imports: "import \"testing\"\n\n"})
	}
	p := &pkgSrc{name: "generated", files: map[string]string{}}
	for i, f := range files {
		var sb strings.Builder
		sb.WriteString("package main\n\n" + f.imports)
		for _, b := range f.body {
			if b != "" {
				sb.WriteString(b + "\n\n")
			}
		}
		if f.xgo && i == 0 {
			sb.WriteString("println F0(1), V0\n")
		}
		// two files may draw the same name: keep both by suffixing
		name := f.name
		for p.files[name] != "" {
			name = "z" + name
		}
		p.files[name] = sb.String()
	}
	return p
}

// genClassProject builds a class-file project for the test framework
// cl/internal/spx: a project file and 1-5 sprite files, optionally with
// erroneous sprites (so that the error list has several entries) and with an
// ordinary XGo or Go file next to them.
func genClassProject(plan *simrt.Source) *pkgSrc {
	p := &pkgSrc{name: "generated-classes", files: map[string]string{}}
	names := []string{"Kai", "Bob", "Amy", "Zed", "Moe", "Ann"}
	if plan.Chance(400) {
		// framework cl/internal/spx3 (*_spx.gox): work classes that name framework
		// types themselves (Handler), next to what the class table gives them
		p.name = "generated-classes-spx3"
		n := 1 + plan.Draw(4)
		main := "var (\n"
		seen := map[string]bool{}
		for i := 0; i < n; i++ {
			nm := names[(i*2+plan.Draw(3))%len(names)]
			if seen[nm] {
				continue
			}
			seen[nm] = true
			main += "\t" + nm + " " + nm + "\n"
			body := fmt.Sprintf("echo \"%s %d\"\nvar h Handler = this\necho h.classfname\n", nm, i)
			if plan.Chance(200) {
				body += fmt.Sprintf("undefinedCall%d()\n", i)
			}
			p.files[nm+"_spx.gox"] = body
		}
		p.files["main_spx.gox"] = main + ")\n\nrun\n"
		return p
	}
	n := 1 + plan.Draw(5)
	var game strings.Builder
	game.WriteString("var (\n")
	var used []string
	for i := 0; i < n; i++ {
		nm := names[(i+plan.Draw(6))%len(names)]
		dup := false
		for _, u := range used {
			if u == nm {
				dup = true
			}
		}
		if dup {
			continue
		}
		used = append(used, nm)
		fmt.Fprintf(&game, "\t%s %s\n", nm, nm)
		body := fmt.Sprintf("var (\n\tcount%d int\n)\n\nfunc onMsg(msg string) {\n\tcount%d++\n\tsay \"%s\"\n}\n\nfunc step%d() int {\n\treturn count%d + %d\n}\n", i, i, nm, i, i, i)
		switch plan.Biased(4, 600) {
		case 1:
			body += fmt.Sprintf("\nfunc broken%d() {\n\tundefinedThing%d()\n}\n", i, i)
		case 2:
			body += fmt.Sprintf("\nvar bad%d int = \"text\"\n", i)
		case 3:
			body += "\nfunc shared() {\n}\n" // the same method name in several sprites is fine; a hook for ordering
		}
		p.files[nm+".tspx"] = body
	}
	game.WriteString(")\n\nfunc onInit() {\n\tfor {\n\t}\n}\n\ninitGameApp\n")
	p.files["Game.tgmx"] = game.String()
	if plan.Chance(300) {
		p.files["util.xgo"] = "package main\n\nfunc Util(a int) int {\n\treturn a * 2\n}\n"
	}
	if plan.Chance(200) {
		p.files["extra.go"] = "package main\n\nfunc Extra() string {\n\treturn \"extra\"\n}\n"
	}
	return p
}

// genMultiFramework builds one package holding class files of two or three
// class frameworks at once, most of them WITHOUT their project file (the
// project class is then generated by the compiler): the order in which the
// frameworks and their generated classes come out must not depend on how the
// files were listed.
func genMultiFramework(plan *simrt.Source) *pkgSrc {
	p := &pkgSrc{name: "generated-multi-framework", files: map[string]string{}, autoMain: plan.Chance(500)}
	type fw struct{ work, proj, body, projBody string }
	fws := []fw{
		{".tspx", "Game.tgmx", "func onInit() {\n\tprintln \"%s\"\n}\n", "initGameApp\n"},
		{".t2spx", "Main.t2gmx", "println \"%s\"\n", "println \"main\"\n"},
		{".t4spx", "Start.t4gmx", "func onInit() {\n\tprintln \"%s\"\n}\n", "println \"start\"\n"},
		{"_spx.gox", "main_spx.gox", "println \"%s\"\n", "println \"hi\"\n"},
	}
	names := []string{"Kai", "Abc", "Zed", "Moe", "Bob", "Ann", "Eve"}
	k := plan.Draw(len(fws)) // the framework left out when only two are used
	three := plan.Chance(600)
	ni := plan.Draw(len(names))
	for i, f := range fws {
		if !three && i == k {
			continue
		}
		for j, n := 0, plan.Draw(3); j < n; j++ {
			nm := names[ni%len(names)]
			ni++
			p.files[nm+f.work] = fmt.Sprintf(f.body, nm)
		}
		switch plan.Draw(4) {
		case 0: // its project file, with statements: this project has the main function
			p.files[f.proj] = f.projBody
		case 1: // its project file, declarations only
			p.files[f.proj] = fmt.Sprintf("func on%d() {\n}\n", i)
		}
	}
	return p
}

// genShadowedBuiltin builds a pair of packages around one builtin name: the
// first declares a package-level function of that name (in a file that sorts
// after the one using it), the second — compiled in between, in the same
// process — uses the real builtin. Whatever the compiler remembers about the
// name from one compile must not leak into the next.
var shadowable = []struct{ name, decl, use, builtinUse string }{
	{"max", "func max(a, b float64) float64 {\n\treturn a\n}\n", "v := max(1, 2)\necho \"${v}\"\n", "echo max(1, 2)\n"},
	{"min", "func min(a, b float64) float64 {\n\treturn b\n}\n", "v := min(1, 2)\necho \"${v}\"\n", "echo min(3, 4)\n"},
	{"len", "func len(s string, extra int) int {\n\treturn extra\n}\n", "echo len(\"abc\", 7)\n", "echo len(\"abc\")\n"},
	{"cap", "func cap(s string, extra int) int {\n\treturn extra\n}\n", "echo cap(\"abc\", 7)\n", "echo cap([]int{1})\n"},
	{"close", "func close(ch chan int, why string) {\n}\n", "ch := make(chan int)\nclose(ch, \"done\")\n", "ch := make(chan int)\nclose(ch)\n"},
	{"append", "func append(a int, b string) string {\n\treturn b\n}\n", "echo append(1, \"x\")\n", "s := append([]int{}, 1)\necho s\n"},
	{"copy", "func copy(a string) string {\n\treturn a\n}\n", "echo copy(\"z\")\n", "d := make([]int, 1)\necho copy(d, []int{2})\n"},
	{"delete", "func delete(a int) int {\n\treturn a\n}\n", "echo delete(3)\n", "m := {\"a\": 1}\ndelete(m, \"a\")\necho m\n"},
	{"real", "func real(a string) string {\n\treturn a\n}\n", "echo real(\"r\")\n", "echo real(complex(1, 2))\n"},
	{"imag", "func imag(a string) string {\n\treturn a\n}\n", "echo imag(\"i\")\n", "echo imag(complex(1, 2))\n"},
	{"complex", "func complex(a string) string {\n\treturn a\n}\n", "echo complex(\"c\")\n", "echo complex(1, 2)\n"},
	{"panic", "func panic(a, b int) int {\n\treturn a + b\n}\n", "echo panic(1, 2)\n", "if false {\n\tpanic(\"p\")\n}\n"},
	{"print", "func print(a, b int) int {\n\treturn a + b\n}\n", "v := print(1, 2)\necho v\n", "print(\"p\")\n"},
	{"new", "func New(a string) string {\n\treturn a\n}\n", "echo New(\"n\")\n", "p := new(int)\necho *p\n"},
	{"make", "func Make(a string) string {\n\treturn a\n}\n", "echo Make(\"m\")\n", "echo make([]int, 2)\n"},
}

func genShadowedBuiltin(plan *simrt.Source) (pkg, noise *pkgSrc) {
	sh := shadowable[plan.Draw(len(shadowable))]
	pkg = &pkgSrc{name: "generated-shadows-" + sh.name, files: map[string]string{
		"a_use.xgo":  sh.use,
		"b_decl.xgo": sh.decl,
	}}
	if plan.Chance(300) {
		pkg.files["c_more.go"] = "package main\n\nfunc More() int {\n\treturn 1\n}\n"
	}
	noise = &pkgSrc{name: "generated-uses-builtin-" + sh.name, files: map[string]string{"main.xgo": sh.builtinUse}}
	return
}

// --- compile under a schedule -----------------------------------------------------------

type env0 struct {
	fset *token.FileSet
	imp  *tool.Importer
}

var shared, other *env0 // two importer/file-set pairs per process (creating one costs seconds: it loads the builtin packages)

// freshFset pairs the importer of e with a brand-new file set: positions start
// over, as they do for every build a long-lived process (a language server, a
// watcher) makes with the importer it keeps.
func freshFset(e *env0) *env0 { return &env0{fset: token.NewFileSet(), imp: e.imp} }

func newEnv() *env0 {
	fset := token.NewFileSet()
	return &env0{fset: fset, imp: tool.NewImporter(nil, &env.XGo{Version: "1.0", Root: repoRoot}, fset)}
}

type result struct {
	out  string
	errs []string
	pan  string
}

func (r result) key() string {
	return r.pan + "\x00" + strings.Join(r.errs, "\n") + "\x00" + r.out
}

func compile(p *pkgSrc, listing []string, e *env0) (res result) {
	defer func() {
		if x := recover(); x != nil {
			res.pan = fmt.Sprint("panic: ", x)
		}
	}()
	fs := memfs.New(map[string][]string{"/pkg": listing}, filesAt("/pkg", p.files))
	pkgs, err := parser.ParseFSDir(e.fset, fs, "/pkg", parser.Config{ClassKind: classKind, Mode: parser.ParseComments})
	if err != nil {
		res.errs = []string{"parse: " + err.Error()}
		return
	}
	var names []string
	for n := range pkgs {
		names = append(names, n)
	}
	sort.Strings(names)
	pkg := pkgs["main"]
	if pkg == nil {
		pkg = pkgs[names[0]]
	}
	conf := &cl.Config{Fset: e.fset, Importer: e.imp, LookupClass: lookupClass, NoAutoGenMain: !p.autoMain, RelativeBase: "/pkg"}
	out, err := cl.NewPackage("", pkg, conf)
	if err != nil {
		if l, ok := err.(errors.List); ok {
			for _, x := range l {
				res.errs = append(res.errs, x.Error())
			}
		} else {
			res.errs = []string{err.Error()}
		}
		return
	}
	var buf bytes.Buffer
	if err := out.WriteTo(&buf); err != nil {
		res.errs = []string{"write: " + err.Error()}
		return
	}
	res.out = buf.String()
	// the package's _test file, when it has one
	var tbuf bytes.Buffer
	if err := out.WriteTo(&tbuf, "_test"); err == nil && tbuf.Len() > 0 {
		res.out += "\n// ---- _test ----\n" + tbuf.String()
	}
	return
}

func filesAt(dir string, files map[string]string) map[string]string {
	m := map[string]string{}
	for n, s := range files {
		m[dir+"/"+n] = s
	}
	return m
}

// --- the run ---------------------------------------------------------------------------------

type c08run struct {
	pkg     *pkgSrc
	reps    int
	fresh   bool // scheduled compiles use the process's second importer/file set instead of the canonical run's
	siteSel int  // 0: perturb every site; k>0: only sites whose hash%4 == k-1
	brandNew bool   // every compile of the run (the canonical one too, and the package compiled in between) gets a brand-new file set next to the shared importer
	noise   *pkgSrc // another package (with overlapping identifiers) compiled in between, same importer and file set
	work    []string
	whash   uint64
	extra   map[string]int
	failure *simrt.Failure
	perms   int
	nerrs   int
}

func (c08) NewRun(plan *simrt.Source, job *harn.Job) harn.Run {
	r := &c08run{extra: map[string]int{}}
	if plan.Chance(200) {
		p, err := loadCorpus(corpusDirs[plan.Draw(len(corpusDirs))])
		if err == nil {
			r.pkg = p
			if plan.Chance(400) {
				// two class projects in one package
				if q, err := loadCorpus(corpusDirs[plan.Draw(len(corpusDirs))]); err == nil && q.name != p.name {
					clash := false
					for n := range q.files {
						if _, ok := p.files[n]; ok {
							clash = true
						}
					}
					if !clash {
						for n, s := range q.files {
							p.files[n] = s
						}
						p.name += "+" + q.name
					}
				}
			}
		}
	}
	if r.pkg == nil && plan.Chance(250) {
		r.pkg = genClassProject(plan)
	}
	if r.pkg == nil && plan.Chance(200) {
		r.pkg = genMultiFramework(plan)
	}
	if r.pkg == nil {
		r.pkg = genPackage(plan)
	}
	r.reps = 2 + plan.Draw(3)
	r.fresh = plan.Chance(300)
	r.siteSel = plan.Draw(5)
	if plan.Chance(400) {
		r.noise = genPackage(plan)
	}
	if plan.Chance(150) {
		r.pkg, r.noise = genShadowedBuiltin(plan)
	}
	hasGo := false
	for n := range r.pkg.files {
		if strings.HasSuffix(n, ".go") {
			hasGo = true
		}
	}
	if hasGo && plan.Chance(250) {
		// separate builds in one process: the importer is kept, every build has a new
		// file set (positions start over), and another package with the SAME file
		// names is compiled in between
		r.brandNew = true
		r.reps = 2
		// the other package: the same files, except that every Go file differs in
		// one digit (same length, so every position in it is the same too) — an
		// earlier or later revision of this very package
		r.noise = &pkgSrc{name: r.pkg.name + "-other-revision", files: map[string]string{}}
		for n, src := range r.pkg.files {
			if strings.HasSuffix(n, ".go") {
				// a change the XGo files can feel: a result type (same length), else a constant's value
				if i := strings.Index(src, ") int {"); i >= 0 {
					src = src[:i] + ") any {" + src[i+7:]
				} else {
					b := []byte(src)
					for i := len(b) - 1; i >= 0; i-- {
						if b[i] >= '0' && b[i] <= '8' && (i == 0 || b[i-1] == ' ' || b[i-1] == '(') {
							b[i]++
							break
						}
					}
					src = string(b)
				}
			}
			r.noise.files[n] = src
		}
	}
	var names []string
	for n := range r.pkg.files {
		names = append(names, n)
	}
	sort.Strings(names)
	r.work = append(r.work, fmt.Sprintf("%s: %d files %v, %d scheduled compiles, fresh env=%v, site filter=%d", r.pkg.name, len(names), names, r.reps, r.fresh, r.siteSel))
	h := uint64(14695981039346656037)
	for _, n := range names {
		for _, c := range []byte(n + "\x00" + r.pkg.files[n]) {
			h = (h ^ uint64(c)) * 1099511628211
		}
	}
	r.whash = h ^ uint64(r.reps)<<8 ^ uint64(r.siteSel)
	if len(names) <= 4 {
		for _, n := range names {
			r.work = append(r.work, n+":\n"+r.pkg.files[n])
		}
	}
	return r
}

func (r *c08run) Strategy() simrt.Strategy              { return simrt.Strategy{} }
func (r *c08run) Body(s *simrt.Sim)                      {}
func (r *c08run) OnStep(s *simrt.Sim) *simrt.Failure     { return nil }
func (r *c08run) StateSig() uint64                       { return 0 }
func (r *c08run) OnQuiesce(s *simrt.Sim, n int) bool     { return false }
func (r *c08run) Workload() interface{}                  { return r.work }
func (r *c08run) WorkHash() uint64                       { return r.whash }
func (r *c08run) Extra() map[string]int                  { return r.extra }
func (r *c08run) Nontrivial(res *simrt.Result) bool      { return r.perms >= 1 }
func (r *c08run) Check(res *simrt.Result) *simrt.Failure { return r.failure }

func siteHash(s string) int {
	h := 0
	for i := 0; i < len(s); i++ {
		h = h*31 + int(s[i])
	}
	if h < 0 {
		h = -h
	}
	return h
}

func (r *c08run) RunSeq(sched *simrt.Source, keepLog bool) *simrt.Result {
	res := &simrt.Result{States: map[uint64]struct{}{}, Probes: map[string]int{}, Faults: map[string]int{}}
	logf := func(format string, a ...interface{}) {
		if keepLog && len(res.Log) < 300 {
			res.Log = append(res.Log, fmt.Sprintf(format, a...))
		}
	}
	var names []string
	for n := range r.pkg.files {
		names = append(names, n)
	}
	sort.Strings(names)
	// canonical run: identity orders, sorted listing, fresh environment
	detmap.SetOrder(nil)
	if shared == nil {
		shared = newEnv()
	}
	cenv := shared
	if r.brandNew {
		// the other package is also built BEFORE the first build of this one, so
		// that whatever it leaves behind can meet the canonical compile as well
		var nn []string
		for n := range r.noise.files {
			nn = append(nn, n)
		}
		sort.Strings(nn)
		compile(r.noise, nn, freshFset(shared))
		cenv = freshFset(shared)
		r.fresh = false
	}
	canon := compile(r.pkg, names, cenv)
	r.nerrs = len(canon.errs)
	if canon.pan != "" {
		// A compiler crash is the subject of another property (C07); here it is
		// just one more observable result that must not depend on the schedule.
		r.extra["canonical-compile-panicked"]++
	}
	logf("canonical: %d bytes of output, errors: %v", len(canon.out), canon.errs)
	hash := uint64(1469598103934665603)
	mix := func(s string) {
		for i := 0; i < len(s); i++ {
			hash = (hash ^ uint64(s[i])) * 1099511628211
		}
	}
	mix(canon.key())
	for rep := 0; rep < r.reps && r.failure == nil; rep++ {
		var touched []string
		detmap.Reset()
		detmap.SetOrder(func(site string, n int) []int {
			if r.siteSel > 0 && siteHash(site)%4 != r.siteSel-1 {
				return nil
			}
			p := sched.Perm(n)
			for i, j := range p {
				if i != j {
					touched = append(touched, site)
					break
				}
			}
			return p
		})
		listing := make([]string, len(names))
		for i, j := range sched.Perm(len(names)) {
			listing[i] = names[j]
		}
		e := shared
		if r.fresh {
			if other == nil {
				other = newEnv()
			}
			e = other
		}
		if r.brandNew {
			e = freshFset(shared)
			res.Faults["fresh-file-set"]++
		}
		if r.noise != nil {
			// state left behind by compiling another package must not leak into this one
			var nn []string
			for n := range r.noise.files {
				nn = append(nn, n)
			}
			sort.Strings(nn)
			compile(r.noise, nn, e)
			res.Faults["other-package-compiled-in-between"]++
			if r.brandNew {
				e = freshFset(shared)
			}
		}
		got := compile(r.pkg, listing, e)
		detmap.SetOrder(nil)
		r.perms += len(touched)
		res.Steps += len(touched) + 1
		res.Faults["map-order-permuted"] += len(touched)
		res.Faults["listing-shuffled"]++
		for s, n := range detmap.Unord {
			r.extra["uncontrolled:"+s] += n
		}
		for s, n := range detmap.Sites {
			r.extra["site:"+s] += n // executions with >= 2 keys: which range sites the workload reaches
		}
		mix(strings.Join(listing, ","))
		logf("compile %d: listing %v, %d permuted range sites", rep, listing, len(touched))
		if got.key() != canon.key() {
			sort.Strings(touched)
			touched = uniq(touched)
			what, site := diffKind(canon, got)
			msg := fmt.Sprintf("compile #%d (listing %v, permuted sites %v) differs from the canonical compile: %s\ncanonical errors: %q\nthis run errors:   %q", rep, listing, touched, what, canon.errs, got.errs)
			if canon.out != got.out {
				msg += "\n" + firstDiff(canon.out, got.out)
			}
			sites := []string{site}
			if len(touched) <= 2 {
				for _, t := range touched {
					sites = append(sites, "site "+stripLine(t))
				}
			}
			r.failure = &simrt.Failure{Class: "nondeterministic-output", Msg: msg, Sites: sites}
		}
	}
	res.Switches = r.perms
	res.SchedHash = hash
	res.Failure = r.failure
	r.extra["compiles"] += r.reps + 1
	if r.nerrs > 1 {
		r.extra["packages-with-2+-errors"]++
	}
	return res
}

func stripLine(site string) string {
	if i := strings.LastIndex(site, ":"); i >= 0 {
		return site[:i]
	}
	return site
}

func uniq(s []string) []string {
	var out []string
	for i, x := range s {
		if i == 0 || x != s[i-1] {
			out = append(out, x)
		}
	}
	return out
}

func diffKind(a, b result) (string, string) {
	if a.pan != b.pan {
		return "one of them panicked: " + a.pan + b.pan, "panic differs"
	}
	if strings.Join(a.errs, "\n") != strings.Join(b.errs, "\n") {
		sa, sb := append([]string(nil), a.errs...), append([]string(nil), b.errs...)
		sort.Strings(sa)
		sort.Strings(sb)
		if strings.Join(sa, "\n") == strings.Join(sb, "\n") {
			return "same errors in a different order", "error list order differs"
		}
		return "different error lists", "error list differs"
	}
	return "different output bytes", "output bytes differ"
}

func firstDiff(a, b string) string {
	la, lb := strings.Split(a, "\n"), strings.Split(b, "\n")
	for i := 0; i < len(la) && i < len(lb); i++ {
		if la[i] != lb[i] {
			return fmt.Sprintf("first differing line %d:\n  canonical: %s\n  this run:  %s", i+1, la[i], lb[i])
		}
	}
	return fmt.Sprintf("outputs have %d and %d lines", len(la), len(lb))
}

func TestZSimC08(t *testing.T) {
	wd, _ := os.Getwd()
	repoRoot = filepath.Dir(filepath.Dir(wd))
	harn.Main(t, c08{})
}
