//go:debug asynctimerchan=0

package watcher_test

// C40 — watch mode never loses or duplicates a changed directory.
// Real x/watcher.Changes (instrumented: sim mutex/cond, seeded map order in
// Fetch) under the seeded scheduler; the invoke/return history is checked for
// linearizability against a set model with porcupine.

import (
	"fmt"
	"os"
	"path"
	"path/filepath"
	"reflect"
	"sort"
	"strings"
	"testing"
	"time"

	"github.com/anishathalye/porcupine"
	"github.com/goplus/xgo/x/watcher"
	"github.com/goplus/xgo/zsim/simrt"
	"github.com/goplus/xgo/zsim/simrt/detmap"
	"github.com/goplus/xgo/zsim/simrt/harn"
)

type c40 struct{}

func (c40) Name() string { return "C40" }

type op struct {
	Kind string // report | delete-file | delete-dir | dir-added | fetch | fetch-full
	Name string
}

// tree is a directory that exists below the watched root when the run starts;
// a producer reports it with DirAdded.
type tree struct {
	Name  string
	Files []string // paths below the tree
}

// treePool: sources and, only next to a source, a file watch mode ignores — so
// the set of directories a DirAdded must report does not depend on the ignore
// rules.
var treePool = [][]string{{"a.go"}, {"b.xgo"}, {"in/c.gox", "in/README.md"}, {"in/deep/d.go"}, {"e.gop"}, {"in/f.go"}}

type hop struct { // history operation
	Client int
	Kind   string // report | fetch | absent
	Dir    string
	Call   int64
	Ret    int64
}

type c40run struct {
	strat     simrt.Strategy
	producers [][]op
	trees     []tree
	fetchers  []int // number of fetches per fetcher (fullPath alternates)
	ch        *watcher.Changes
	root      string
	ev        int64
	hist      []hop
	pending   map[int]int64 // fetcher client -> invoke seq of its pending fetch
	fetchG    map[int]*simrt.G
	prodDone  int
	phase     int
	drained   int
	dirs      map[string]bool
	whash     uint64
	extra     map[string]int
	work      []string
	mapPerms  int
	rootKind  int
	big       bool
	failure   *simrt.Failure
	cleanup   string
}

func (c40) NewRun(plan *simrt.Source, job *harn.Job) harn.Run {
	r := &c40run{pending: map[int]int64{}, fetchG: map[int]*simrt.G{}, dirs: map[string]bool{}, extra: map[string]int{}}
	maxOps := 24
	if job.Tier == "thorough" {
		maxOps = 40
	}
	// strategy
	r.strat.Kind = plan.Draw(4)
	r.strat.StickyP = 500 + 100*plan.Draw(5)
	if r.strat.Kind == 2 {
		d := 1 + plan.Draw(5)
		for i := 0; i < d; i++ {
			r.strat.PCTSteps = append(r.strat.PCTSteps, plan.Draw(200))
		}
	}
	if r.strat.Kind == 3 {
		r.strat.Victim = 1 + plan.Draw(6)
		r.strat.Until = 20 + plan.Draw(200)
	}
	nDirs := 2 + plan.Draw(3)
	np := 1 + plan.Draw(3)
	nf := 1 + plan.Draw(3)
	names := []string{"a", "b/c", "d", "e/f/g"}[:nDirs]
	if plan.Chance(300) {
		// names that differ in case only (or by a leading dot) are different directories here
		names = [][]string{{"a", "A", "b/c", "b/C"}, {"Foo", "foo", "d", "D"}, {"pkg/Util", "pkg/util", "X", "e"},
			{".tools", "tools", ".github/scripts", "github/scripts"}, {"pkg/.internal", "pkg/internal", ".x", "x"},
			// names that are string prefixes of one another without being parents, and a real
			// sub-directory: removing one directory says nothing about its look-alikes
			{"pkg/api", "pkg/apiv2", "pkg/api_test", "pkg/api/internal"}, {"a", "ab", "a/b", "abc"}}[plan.Draw(7)][:nDirs]
	}
	r.rootKind = plan.Draw(4) // 0,1: a path that does not exist; 2: a real directory; 3: a real directory whose name has no letters
	budget := maxOps
	if plan.Chance(400) {
		// directories created (with content) below the watched root: DirAdded
		for t, nt := 0, 1+plan.Draw(2); t < nt; t++ {
			tr := tree{Name: []string{"n0", "sub/n1"}[t]}
			for _, grp := range treePool {
				if plan.Chance(450) {
					tr.Files = append(tr.Files, grp...)
				}
			}
			if len(tr.Files) == 0 {
				tr.Files = []string{"a.go"}
			}
			r.trees = append(r.trees, tr)
		}
	}
	for p := 0; p < np; p++ {
		n := 1 + plan.Draw(6)
		var ops []op
		for i := 0; i < n && budget > 0; i++ {
			budget--
			d := names[plan.Draw(nDirs)]
			file := d + "/" + []string{"x.go", "y.xgo", "z.gox"}[plan.Draw(3)]
			if len(r.trees) > 0 && plan.Chance(250) {
				tr := r.trees[plan.Draw(len(r.trees))]
				ops = append(ops, op{"dir-added", tr.Name})
				budget -= len(tr.Files)
				continue
			}
			switch plan.Biased(4, 700) {
			case 0:
				ops = append(ops, op{"report", file})
			case 1:
				ops = append(ops, op{"delete-file", file})
			case 2:
				ops = append(ops, op{"delete-dir", d})
			case 3:
				ops = append(ops, op{"report", "top.go"}) // directory "."
			}
		}
		r.producers = append(r.producers, ops)
	}
	if plan.Chance(40) {
		// a burst: far more directories pending at once than usual (a branch
		// switch, an unpacked archive), reported faster than they are fetched
		r.big = true
		r.producers, r.trees = nil, nil
		np = 2 + plan.Draw(2)
		per := 30 + plan.Draw(40)
		for p := 0; p < np; p++ {
			var ops []op
			for i := 0; i < per; i++ {
				ops = append(ops, op{"report", fmt.Sprintf("m%d_%03d/x.go", p, i)})
				if plan.Chance(100) {
					ops = append(ops, op{"report", fmt.Sprintf("m%d_%03d/y.go", p, plan.Draw(i+1))})
				}
			}
			r.producers = append(r.producers, ops)
		}
		nf = 1 + plan.Draw(2)
		budget = 1 << 20
	}
	for f := 0; f < nf; f++ {
		n := 1 + plan.Draw(5)
		if r.big {
			n = 5 + plan.Draw(25)
		}
		if n > budget {
			n = budget
		}
		budget -= n
		r.fetchers = append(r.fetchers, n)
	}
	h := uint64(14695981039346656037)
	for p, ops := range r.producers {
		r.work = append(r.work, fmt.Sprintf("producer%d: %v", p, ops))
		for _, o := range ops {
			for _, c := range []byte(o.Kind + o.Name + "|") {
				h = (h ^ uint64(c)) * 1099511628211
			}
		}
		h = (h ^ 0xff) * 1099511628211
	}
	for _, t := range r.trees {
		d := fmt.Sprintf("tree %s: %v", t.Name, t.Files)
		r.work = append(r.work, d)
		for _, c := range []byte(d) {
			h = (h ^ uint64(c)) * 1099511628211
		}
	}
	for f, n := range r.fetchers {
		r.work = append(r.work, fmt.Sprintf("fetcher%d: %d fetches", f, n))
		h = (h ^ uint64(n+1)) * 1099511628211
	}
	r.whash = h
	return r
}

func (r *c40run) Strategy() simrt.Strategy { return r.strat }
func (r *c40run) Workload() interface{}    { return r.work }
func (r *c40run) WorkHash() uint64         { return r.whash }
func (r *c40run) Extra() map[string]int    { return r.extra }

func (r *c40run) tick() int64 { r.ev++; return r.ev }

func (r *c40run) report(client int, name string, del bool) {
	dir := path.Dir(name)
	call := r.tick()
	if del {
		r.ch.EntryDeleted(name, false)
	} else {
		r.ch.FileChanged(name)
	}
	r.hist = append(r.hist, hop{Client: client, Kind: "report", Dir: dir, Call: call, Ret: r.tick()})
	r.dirs[dir] = true
}

// dirAdded reports a directory tree. DirAdded walks the tree and reports file
// by file, so in the history it is one report per source file, each of which
// takes effect somewhere between the call and the return.
func (r *c40run) dirAdded(client int, name string) {
	var tr tree
	for _, t := range r.trees {
		if t.Name == name {
			tr = t
		}
	}
	call := r.tick()
	r.ch.DirAdded(name)
	ret := r.tick()
	for _, f := range tr.Files {
		if strings.HasSuffix(f, ".md") {
			continue
		}
		dir := path.Dir(name + "/" + f)
		r.hist = append(r.hist, hop{Client: client, Kind: "report", Dir: dir, Call: call, Ret: ret})
		r.dirs[dir] = true
	}
	r.extra["dir-added-reports"]++
}

func (r *c40run) fetch(client int, full bool) {
	r.pending[client] = r.tick()
	got := r.ch.Fetch(full)
	call := r.pending[client]
	delete(r.pending, client)
	if full {
		if !strings.HasPrefix(got, r.root) {
			r.failure = &simrt.Failure{Class: "oracle:fullpath", Msg: fmt.Sprintf("Fetch(true) returned %q, not below root %q", got, r.root), Sites: []string{"Fetch"}}
		}
		// the same directory may be spelled <root>/. or <root>/ : compare directories, not spellings
		got = path.Clean(strings.TrimPrefix(got, r.root))
		if got == "" {
			got = "."
		}
	}
	r.hist = append(r.hist, hop{Client: client, Kind: "fetch", Dir: got, Call: call, Ret: r.tick()})
}

func (r *c40run) Body(s *simrt.Sim) {
	detmap.SetOrder(func(site string, n int) []int {
		r.mapPerms++
		return s.Sched().Perm(n)
	})
	root := "/zsimroot"
	if len(r.trees) > 0 || r.rootKind >= 2 {
		// DirAdded walks the real file system: the watched root is a real directory
		base := os.Getenv("VERIF_SCRATCH")
		if base == "" {
			base = os.TempDir()
		}
		root = filepath.Join(base, fmt.Sprintf("c40-%d", os.Getpid()))
		if r.rootKind == 3 {
			root = filepath.Join(base, fmt.Sprintf("c40-%d", os.Getpid()), "2024.1")
		}
		os.RemoveAll(root)
		os.MkdirAll(root, 0755)
		for _, t := range r.trees {
			for _, f := range t.Files {
				p := filepath.Join(root, t.Name, f)
				os.MkdirAll(filepath.Dir(p), 0755)
				os.WriteFile(p, []byte("package x\n"), 0644)
			}
		}
		r.cleanup = root
	}
	r.ch = watcher.NewChanges(root)
	r.root = root + "/"
	for p, ops := range r.producers {
		p, ops := p, ops
		simrt.Go(fmt.Sprintf("producer%d", p), func() {
			for _, o := range ops {
				switch o.Kind {
				case "report":
					r.report(p, o.Name, false)
				case "delete-file":
					r.report(p, o.Name, true)
				case "delete-dir":
					r.ch.EntryDeleted(o.Name, true)
				case "dir-added":
					r.dirAdded(p, o.Name)
				}
			}
			r.prodDone++
		})
	}
	for f, n := range r.fetchers {
		f, n := f, n
		r.fetchG[100+f] = simrt.Go(fmt.Sprintf("fetcher%d", f), func() {
			for i := 0; i < n; i++ {
				r.fetch(100+f, (i+f)%2 == 1)
			}
		})
	}
}

func (r *c40run) OnStep(s *simrt.Sim) *simrt.Failure { return r.failure }

func (r *c40run) StateSig() uint64 {
	n := -1
	if v := reflect.ValueOf(r.ch); v.IsValid() && !v.IsNil() {
		if f := v.Elem().FieldByName("changed"); f.IsValid() && f.Kind() == reflect.Map {
			n = f.Len()
		}
	}
	return uint64(n+1)<<16 | uint64(len(r.pending))<<8 | uint64(r.prodDone)<<4 | uint64(r.phase)
}

// observeEmpty records, for every fetcher blocked at a quiescent instant,
// that it found every directory absent.
func (r *c40run) observeEmpty() {
	if len(r.pending) == 0 {
		return
	}
	t := r.tick()
	t2 := r.tick()
	r.extra["blocked-fetch-observations"] += len(r.pending)
	for _, d := range r.sortedDirs() {
		r.hist = append(r.hist, hop{Client: 900, Kind: "absent", Dir: d, Call: t, Ret: t2})
	}
}

func (r *c40run) sortedDirs() []string {
	var l []string
	for d := range r.dirs {
		l = append(l, d)
	}
	sort.Strings(l)
	return l
}

func (r *c40run) OnQuiesce(s *simrt.Sim, _ int) bool {
	r.observeEmpty()
	r.phase++
	switch r.phase {
	case 1:
		// Wake-up after a quiescent wait: one fresh directory per blocked fetcher.
		k := len(r.pending)
		if k == 0 {
			return r.OnQuiesce(s, 0)
		}
		r.extra["drain-reports"] += k
		simrt.Go("drain-producer", func() {
			for i := 0; i < k; i++ {
				r.report(200, fmt.Sprintf("drain%d/f.go", i), false)
			}
		})
		return true
	case 2:
		// Sweep whatever is left, then block: the final observation must be empty.
		simrt.Go("sweeper", func() {
			n := 64
			if r.big {
				n = 400
			}
			for i := 0; i < n; i++ {
				r.fetch(300, false)
				r.drained++
			}
		})
		return true
	}
	return false
}

func (r *c40run) Nontrivial(res *simrt.Result) bool {
	return len(r.hist) >= 2 && res.Switches >= 2
}

// --- oracle ------------------------------------------------------------------

type pin struct {
	kind string
}

var setModel = porcupine.Model{
	Partition: func(history []porcupine.Operation) [][]porcupine.Operation {
		m := map[string][]porcupine.Operation{}
		var keys []string
		for _, o := range history {
			d := o.Output.(string)
			if _, ok := m[d]; !ok {
				keys = append(keys, d)
			}
			m[d] = append(m[d], o)
		}
		var out [][]porcupine.Operation
		for _, k := range keys {
			out = append(out, m[k])
		}
		return out
	},
	Init: func() interface{} { return false },
	Step: func(state, input, output interface{}) (bool, interface{}) {
		present := state.(bool)
		switch input.(pin).kind {
		case "report":
			return true, true
		case "fetch":
			return present, false
		case "absent":
			return !present, present
		}
		return false, state
	},
	Equal: func(a, b interface{}) bool { return a.(bool) == b.(bool) },
	DescribeOperation: func(input, output interface{}) string {
		return fmt.Sprintf("%s(%v)", input.(pin).kind, output)
	},
}

func (r *c40run) Check(res *simrt.Result) *simrt.Failure {
	if r.cleanup != "" {
		os.RemoveAll(r.cleanup)
	}
	if r.failure != nil {
		return r.failure
	}
	// Every goroutine still alive must be a fetcher waiting on the condition variable.
	for _, b := range res.Blocked {
		if !strings.Contains(b, " on cond") {
			return &simrt.Failure{Class: "hang", Msg: "goroutine stuck at quiescence: " + strings.Join(res.Blocked, "; "), Sites: []string{"quiescence: " + stripG(b)}}
		}
	}
	if r.phase < 2 {
		return &simrt.Failure{Class: "hang", Msg: "run ended before the sweep phase", Sites: []string{"phase"}}
	}
	// Fetch must never return a directory nobody reported.
	for _, h := range r.hist {
		if h.Kind == "fetch" && !r.dirs[h.Dir] {
			return &simrt.Failure{Class: "oracle:unreported", Msg: fmt.Sprintf("Fetch returned %q which was never reported", h.Dir), Sites: []string{"Fetch returned unreported directory"}}
		}
	}
	ops := make([]porcupine.Operation, 0, len(r.hist))
	for _, h := range r.hist {
		ops = append(ops, porcupine.Operation{ClientId: h.Client % 1000, Input: pin{h.Kind}, Output: h.Dir, Call: h.Call, Return: h.Ret})
	}
	switch porcupine.CheckOperationsTimeout(setModel, ops, 30*time.Second) {
	case porcupine.Illegal:
		return &simrt.Failure{Class: "oracle:not-linearizable", Msg: "history is not linearizable against the set model:\n" + r.renderHist(), Sites: []string{r.diagnose()}}
	case porcupine.Unknown:
		r.extra["porcupine-unknown"]++
	}
	return nil
}

func stripG(b string) string {
	// "fetcher0 blocked@site on cond" -> role without the numeric suffix
	f := strings.Fields(b)
	if len(f) == 0 {
		return b
	}
	role := strings.TrimRight(f[0], "0123456789")
	return role + " " + strings.Join(f[1:], " ")
}

// diagnose names the kind of anomaly for the fingerprint (per directory,
// sequentially consistent counting is enough to classify, not to decide).
func (r *c40run) diagnose() string {
	for _, d := range r.sortedDirs() {
		var sub []porcupine.Operation
		hasAbsent := false
		for _, h := range r.hist {
			if h.Dir == d {
				sub = append(sub, porcupine.Operation{ClientId: h.Client % 1000, Input: pin{h.Kind}, Output: h.Dir, Call: h.Call, Return: h.Ret})
				if h.Kind == "absent" {
					hasAbsent = true
				}
			}
		}
		if porcupine.CheckOperations(setModel, sub) {
			continue
		}
		// without the blocked-fetch observations?
		var noAbs []porcupine.Operation
		for _, o := range sub {
			if o.Input.(pin).kind != "absent" {
				noAbs = append(noAbs, o)
			}
		}
		if hasAbsent && porcupine.CheckOperations(setModel, noAbs) {
			return "fetch blocked (or directory never returned) while a reported directory was pending"
		}
		return "directory returned more often than reported"
	}
	return "not linearizable"
}

func (r *c40run) renderHist() string {
	var sb strings.Builder
	for _, h := range r.hist {
		fmt.Fprintf(&sb, "  [%d,%d] client%d %s(%s)\n", h.Call, h.Ret, h.Client, h.Kind, h.Dir)
	}
	for c := 0; c < 1000; c++ {
		if t, ok := r.pending[c]; ok {
			fmt.Fprintf(&sb, "  [%d,…] client%d fetch pending\n", t, c)
		}
	}
	return sb.String()
}

func TestZSimC40(t *testing.T) { harn.Main(t, c40{}) }
