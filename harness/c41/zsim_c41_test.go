//go:debug asynctimerchan=0

package fakenet_test

// C41 — closing a fake connection unblocks pending I/O; data passes through
// in order and unmodified. Real x/fakenet (instrumented) over simulated
// in/out streams whose Read/Write return short counts, errors, block for a
// while or never return; readers, writers and closers are simulated tasks.

import (
	"errors"
	"fmt"
	"io"
	"net"
	"strings"
	"testing"

	"github.com/goplus/xgo/x/fakenet"
	"github.com/goplus/xgo/zsim/simrt"
	"github.com/goplus/xgo/zsim/simrt/harn"
)

type c41 struct{}

func (c41) Name() string { return "C41" }

var errBoom = errors.New("simio: injected I/O error")
var errClosed = errors.New("simio: stream already closed")

// srcCall is one call that reached the underlying stream.
type srcCall struct {
	buf       *byte // identity of the buffer handed to the stream
	blen      int
	off       int // stream offset before the call (reads: input offset)
	n         int
	err       error
	returned  bool
	delivered bool
	data      []byte // writes: content of the buffer at the call; reads: bytes produced
}

// connCall is one Read or Write on the fake connection.
type connCall struct {
	task     string
	write    bool
	buf      []byte
	want     []byte // writes: the content the caller passed
	n        int
	err      error
	returned bool
	afterClose bool // invoked after some Close call had returned
	racing   bool // a Close had been invoked (not necessarily returned) before this call returned
	seq      int
}

type stream struct {
	r        *c41run
	write    bool
	active   int
	calls    []*srcCall
	closed   bool
	closeUnblocks bool
	data     []byte // reads: whole input; writes: accepted output
	avail    int    // reads: number of input bytes made available by the feeder
	eof      bool   // reads: feeder finished
	more     simrt.Event // reads: signalled on new data / eof / close; writes: release of a blocked write
	blockWr  int    // writes: the k-th write call blocks (0: none)
	blockForever bool
}

func (st *stream) Close() error {
	simrt.Yield("stream.Close")
	st.closed = true
	if st.closeUnblocks {
		st.more.Set()
	}
	return nil
}

func (st *stream) enter(b []byte) *srcCall {
	if st.active > 0 {
		// overlapping calls to the underlying stream: an implementation detail,
		// not part of the statement; counted only
		if s := simrt.Active(); s != nil {
			s.Probe("beyond-statement:overlapping calls to the underlying stream")
		}
	}
	st.active++
	c := &srcCall{blen: len(b), off: len(st.data)}
	if len(b) > 0 {
		c.buf = &b[0]
	}
	if st.write {
		c.data = append([]byte(nil), b...)
	} else {
		c.off = st.off()
	}
	st.calls = append(st.calls, c)
	return c
}

func (st *stream) kind() string {
	if st.write {
		return "out.Write"
	}
	return "in.Read"
}

func (st *stream) off() int {
	o := 0
	for _, c := range st.calls {
		if c.returned {
			o += c.n
		}
	}
	return o
}

func (st *stream) leave(c *srcCall, n int, err error) (int, error) {
	c.n, c.err, c.returned = n, err, true
	st.active--
	return n, err
}

// Read is the underlying input stream.
func (st *stream) Read(b []byte) (int, error) {
	s := simrt.Active()
	c := st.enter(b)
	simrt.Yield("in.Read")
	for {
		if st.closed && st.closeUnblocks {
			return st.leave(c, 0, errClosed)
		}
		off := c.off
		if off < st.avail {
			max := st.avail - off
			if max > len(b) {
				max = len(b)
			}
			n := max
			if max > 1 && s.Sched().Chance(500) {
				n = 1 + s.Sched().Draw(max)
				s.Fault("short-read")
			}
			copy(b, st.data[off:off+n])
			c.data = append([]byte(nil), st.data[off:off+n]...)
			var err error
			if st.r.readErrAt > 0 && len(st.calls) == st.r.readErrAt {
				err = errBoom
				s.Fault("read-error-with-data")
			}
			return st.leave(c, n, err)
		}
		if st.eof {
			return st.leave(c, 0, io.EOF)
		}
		if st.r.readErrAt > 0 && len(st.calls) == st.r.readErrAt {
			s.Fault("read-error")
			return st.leave(c, 0, errBoom)
		}
		// no data: block until the feeder adds some (or forever)
		s.Probe("source-read-blocked")
		st.more = simrt.Event{}
		st.more.Wait("in.Read blocked")
	}
}

// Write is the underlying output stream.
func (st *stream) Write(b []byte) (int, error) {
	s := simrt.Active()
	c := st.enter(b)
	simrt.Yield("out.Write")
	if st.blockWr > 0 && len(st.calls) == st.blockWr {
		s.Fault("blocked-write")
		s.Probe("source-write-blocked")
		st.more.Wait("out.Write blocked")
		if st.closed && st.closeUnblocks {
			return st.leave(c, 0, errClosed)
		}
	}
	if st.closed && st.closeUnblocks {
		return st.leave(c, 0, errClosed)
	}
	n := len(b)
	var err error
	if st.r.writeErrAt > 0 && len(st.calls) == st.r.writeErrAt {
		n = s.Sched().Draw(len(b) + 1)
		err = errBoom
		s.Fault("short-write-error")
	}
	st.data = append(st.data, b[:n]...)
	return st.leave(c, n, err)
}

type taskPlan struct {
	Kind  string // reader | writer | closer | feeder
	Ops   []int  // buffer sizes (reader/writer), chunk sizes (feeder)
	Delay int    // closer: yields before Close; others: yields before starting
	Post  int    // closer: reads/writes issued after its Close returned
}

type c41run struct {
	strat   simrt.Strategy
	tasks   []taskPlan
	in, out *stream
	c       net.Conn
	conn    []*connCall
	closeInvoked  bool
	closeReturned bool
	closes  int
	failure *simrt.Failure
	readErrAt, writeErrAt int
	input   []byte
	phase   int
	whash   uint64
	work    []string
	extra   map[string]int
	wseq    byte
	sim     *simrt.Sim
	knobs   string
}

func (r *c41run) fail(class, msg, site string) {
	if r.failure == nil {
		r.failure = &simrt.Failure{Class: class, Msg: msg, Sites: []string{site}}
	}
}

func drawStrategy(plan *simrt.Source, ngo int) simrt.Strategy {
	var st simrt.Strategy
	st.Kind = plan.Draw(4)
	st.StickyP = 500 + 100*plan.Draw(5)
	if st.Kind == 2 {
		d := 1 + plan.Draw(5)
		for i := 0; i < d; i++ {
			st.PCTSteps = append(st.PCTSteps, plan.Draw(300))
		}
	}
	if st.Kind == 3 {
		st.Victim = 1 + plan.Draw(ngo)
		st.Until = 20 + plan.Draw(300)
	}
	return st
}

func (c41) NewRun(plan *simrt.Source, job *harn.Job) harn.Run {
	r := &c41run{extra: map[string]int{}}
	r.strat = drawStrategy(plan, 9)
	maxOps := 6
	if job.Tier == "thorough" {
		maxOps = 12
	}
	nr := plan.Draw(3)
	nw := plan.Draw(3)
	if nr+nw == 0 {
		nr = 1
	}
	nc := plan.Draw(3)
	// buffer sizes: mostly a few bytes (many operations, cheap), sometimes around
	// the thresholds implementations like to special-case (bufio's 4096, 32 KiB
	// copy buffers, 64 KiB pipe buffers)
	size := func() int {
		if plan.Chance(120) {
			return []int{511, 4095, 4096, 4097, 8193, 10000, 32769, 70000}[plan.Draw(8)]
		}
		return 1 + plan.Draw(6)
	}
	for i := 0; i < nr; i++ {
		t := taskPlan{Kind: "reader", Delay: plan.Draw(4)}
		for k, n := 0, 1+plan.Draw(maxOps); k < n; k++ {
			t.Ops = append(t.Ops, size())
		}
		r.tasks = append(r.tasks, t)
	}
	for i := 0; i < nw; i++ {
		t := taskPlan{Kind: "writer", Delay: plan.Draw(4)}
		for k, n := 0, 1+plan.Draw(maxOps); k < n; k++ {
			t.Ops = append(t.Ops, size())
		}
		r.tasks = append(r.tasks, t)
	}
	for i := 0; i < nc; i++ {
		r.tasks = append(r.tasks, taskPlan{Kind: "closer", Delay: plan.Draw(40), Post: plan.Draw(6)})
	}
	if nr > 0 {
		t := taskPlan{Kind: "feeder", Delay: plan.Draw(6)}
		for k, n := 0, plan.Draw(6); k < n; k++ {
			if plan.Chance(100) {
				t.Ops = append(t.Ops, 4000+plan.Draw(6000))
			} else {
				t.Ops = append(t.Ops, 1+plan.Draw(10))
			}
		}
		r.tasks = append(r.tasks, t)
	}
	r.in = &stream{r: r}
	r.out = &stream{r: r, write: true}
	// knobs
	r.in.closeUnblocks = plan.Chance(500)
	r.out.closeUnblocks = plan.Chance(500)
	r.in.eof = false
	if plan.Chance(250) {
		r.readErrAt = 1 + plan.Draw(5)
	}
	if plan.Chance(250) {
		r.writeErrAt = 1 + plan.Draw(5)
	}
	if plan.Chance(350) {
		r.out.blockWr = 1 + plan.Draw(4)
		r.out.blockForever = plan.Chance(500)
	}
	feederEOF := plan.Chance(400)
	total := 0
	for _, t := range r.tasks {
		if t.Kind == "feeder" {
			for _, n := range t.Ops {
				total += n
			}
		}
	}
	r.input = make([]byte, total)
	for i := range r.input {
		r.input[i] = byte(i*7 + 3)
	}
	r.in.data = r.input
	r.knobs = fmt.Sprintf("in.Close unblocks=%v out.Close unblocks=%v readErrAt=%d writeErrAt=%d blockWrite=%d forever=%v feederEOF=%v",
		r.in.closeUnblocks, r.out.closeUnblocks, r.readErrAt, r.writeErrAt, r.out.blockWr, r.out.blockForever, feederEOF)
	if feederEOF {
		r.extra["feeder-eof-runs"] = 1
	}
	r.work = append(r.work, r.knobs)
	h := uint64(14695981039346656037)
	for _, c := range []byte(r.knobs) {
		h = (h ^ uint64(c)) * 1099511628211
	}
	for i, t := range r.tasks {
		d := fmt.Sprintf("%s%d: delay=%d ops=%v post=%d", t.Kind, i, t.Delay, t.Ops, t.Post)
		r.work = append(r.work, d)
		for _, c := range []byte(d) {
			h = (h ^ uint64(c)) * 1099511628211
		}
	}
	r.whash = h
	if feederEOF {
		r.in.blockForever = false
	}
	r.in.blockWr = 0
	if feederEOF {
		r.in.blockWr = -1 // marks "feeder sets eof" (field reused for reads)
	}
	return r
}

func (r *c41run) Strategy() simrt.Strategy { return r.strat }
func (r *c41run) Workload() interface{}    { return r.work }
func (r *c41run) WorkHash() uint64         { return r.whash }
func (r *c41run) Extra() map[string]int    { return r.extra }

func (r *c41run) doRead(task string, size int) {
	cc := &connCall{task: task, buf: make([]byte, size), afterClose: r.closeReturned, seq: len(r.conn)}
	r.conn = append(r.conn, cc)
	n, err := r.c.Read(cc.buf)
	cc.n, cc.err, cc.returned, cc.racing = n, err, true, r.closeInvoked
	r.checkCall(cc)
}

func (r *c41run) doWrite(task string, size int) {
	// unique content per call (fewer than 256 writes per run): the tag makes even
	// one-byte buffers distinct, the position terms make every offset of a large
	// buffer recognisable
	buf := make([]byte, size)
	r.wseq++
	for i := range buf {
		buf[i] = r.wseq + byte(i*7) + byte((i>>8)*13)
	}
	cc := &connCall{task: task, write: true, buf: buf, want: append([]byte(nil), buf...), afterClose: r.closeReturned, seq: len(r.conn)}
	r.conn = append(r.conn, cc)
	n, err := r.c.Write(cc.buf)
	cc.n, cc.err, cc.returned, cc.racing = n, err, true, r.closeInvoked
	r.checkCall(cc)
}

func (r *c41run) doClose(task string) {
	r.closeInvoked = true
	r.closes++
	err := r.c.Close()
	r.closeReturned = true
	if err != nil {
		r.fail("oracle:close-error", fmt.Sprintf("Close returned %v", err), "Close returned an error")
	}
}

// checkCall evaluates the per-call oracle when a connection call returns.
func (r *c41run) checkCall(cc *connCall) {
	st := r.in
	what := "Read"
	if cc.write {
		st, what = r.out, "Write"
	}
	if cc.n < 0 || cc.n > len(cc.buf) {
		r.fail("oracle:result", fmt.Sprintf("%s by %s with a %d-byte buffer returned n=%d", what, cc.task, len(cc.buf), cc.n), what+" result is not its own stream result")
		return
	}
	if cc.afterClose {
		r.sim.Probe("op-started-after-close")
		if cc.n != 0 || cc.err != io.EOF {
			r.fail("oracle:after-close", fmt.Sprintf("%s started after Close had returned gave (%d, %v), want (0, EOF)", what, cc.n, cc.err), what+" after Close is not EOF")
		}
		return
	}
	if cc.write && string(cc.buf) != string(cc.want) {
		r.fail("oracle:buffer-modified", "Write modified the caller's buffer", "Write modified the caller's buffer")
	}
	// Find the call to the underlying stream that belongs to this call, by the
	// DATA and the result (not by buffer identity: an implementation is free to
	// copy): writes carry unique content; reads produce position-coded bytes.
	var sc *srcCall
	for _, c := range st.calls {
		if !c.returned || c.delivered {
			continue
		}
		if cc.write {
			if string(c.data) == string(cc.want) {
				sc = c
				break
			}
			continue
		}
		if c.n == cc.n && c.err == cc.err && (cc.n == 0 || string(cc.buf[:cc.n]) == string(c.data)) {
			sc = c
			break
		}
	}
	closedEOF := cc.n == 0 && cc.err == io.EOF && cc.racing
	if cc.err == errClosed {
		// Only the connection's own Close closes the underlying streams, so this
		// call was pending at (or started after) Close and must report EOF.
		r.fail("oracle:close-error-leaked", fmt.Sprintf("%s by %s returned the underlying stream's close error (%d, %v) instead of EOF", what, cc.task, cc.n, cc.err), what+" returned the stream's close error instead of EOF")
		return
	}
	if sc != nil && sc.returned && !sc.delivered && cc.n == sc.n && cc.err == sc.err {
		sc.delivered = true
		if cc.write {
			if string(sc.data) != string(cc.want) {
				r.fail("oracle:write-data", fmt.Sprintf("the stream was given %v for a Write of %v", sc.data, cc.want), "out.Write received different bytes")
			}
			r.sim.Probe("write-relayed")
		} else {
			if string(cc.buf[:cc.n]) != string(sc.data) || string(sc.data) != string(r.input[sc.off:sc.off+sc.n]) {
				r.fail("oracle:read-data", fmt.Sprintf("Read returned %v, the stream produced %v at offset %d", cc.buf[:cc.n], sc.data, sc.off), "Read returned bytes that differ from the stream")
			}
			r.sim.Probe("read-relayed")
		}
		return
	}
	if cc.write && sc == nil && r.chunkedWrite(cc) {
		return
	}
	if closedEOF {
		r.sim.Probe("op-ended-by-close")
		return
	}
	r.fail("oracle:result", fmt.Sprintf("%s by %s returned (%d, %v) which is neither the result of its own call to the underlying stream (%s) nor EOF after Close", what, cc.task, cc.n, cc.err, descr(sc)), what+" result is not its own stream result")
}

// chunkedWrite accepts an implementation that hands one Write to the stream in
// several pieces (the statement does not forbid it): the pieces must be
// CONSECUTIVE calls to the stream — nothing of another Write in between, or the
// data would not arrive "in order and unmodified" — each carrying the next part
// of the caller's buffer, and the Write must report the total the stream
// accepted together with the last piece's error.
func (r *c41run) chunkedWrite(cc *connCall) bool {
	calls := r.out.calls
	for i := range calls {
		pos, j := 0, i
		var last *srcCall
		for ; j < len(calls); j++ {
			c := calls[j]
			if !c.returned || c.delivered || pos+len(c.data) > len(cc.want) || string(c.data) != string(cc.want[pos:pos+len(c.data)]) || len(c.data) == 0 {
				break
			}
			pos += c.n
			last = c
			if c.n < len(c.data) || c.err != nil || pos == len(cc.want) {
				j++
				break
			}
		}
		if last == nil || j-i < 2 {
			continue
		}
		if cc.n == pos && cc.err == last.err {
			for k := i; k < j; k++ {
				calls[k].delivered = true
			}
			r.sim.Probe("write-relayed-in-pieces")
			return true
		}
	}
	return false
}

func descr(c *srcCall) string {
	if c == nil {
		return "no such call was made"
	}
	if !c.returned {
		return "the stream call has not returned"
	}
	return fmt.Sprintf("stream returned (%d, %v), delivered=%v", c.n, c.err, c.delivered)
}

func (r *c41run) Body(s *simrt.Sim) {
	r.sim = s
	r.c = fakenet.NewConn("sim", r.in, r.out)
	for i, t := range r.tasks {
		i, t := i, t
		name := fmt.Sprintf("%s%d", t.Kind, i)
		simrt.Go(name, func() {
			for d := 0; d < t.Delay; d++ {
				simrt.Yield("delay")
			}
			switch t.Kind {
			case "reader":
				for _, n := range t.Ops {
					r.doRead(name, n)
				}
			case "writer":
				for _, n := range t.Ops {
					r.doWrite(name, n)
				}
			case "closer":
				r.doClose(name)
				for k := 0; k < t.Post; k++ {
					// the third and later ones with an EMPTY buffer: "every Read or
					// Write started after Close" includes those (a fast path for
					// empty requests must not skip the closed test)
					size := 3
					if k >= 2 {
						size = 0
						r.sim.Probe("empty-op-after-close")
					}
					if k%2 == 0 {
						r.doRead(name, size)
					} else {
						r.doWrite(name, size)
					}
				}
			case "feeder":
				for _, n := range t.Ops {
					simrt.Yield("feed")
					r.in.avail += n
					r.in.more.Set()
				}
				if r.in.blockWr == -1 {
					simrt.Yield("feed-eof")
					r.in.eof = true
					r.in.more.Set()
				}
			}
		})
	}
}

func (r *c41run) OnStep(s *simrt.Sim) *simrt.Failure { return r.failure }

func (r *c41run) StateSig() uint64 {
	pend := 0
	for _, c := range r.conn {
		if !c.returned {
			pend++
		}
	}
	b := func(v bool) uint64 {
		if v {
			return 1
		}
		return 0
	}
	return uint64(pend)<<8 | uint64(r.in.active)<<6 | uint64(r.out.active)<<4 | b(r.closeInvoked)<<2 | b(r.closeReturned)<<1 | b(r.in.eof)
}

func (r *c41run) OnQuiesce(s *simrt.Sim, _ int) bool {
	r.phase++
	switch r.phase {
	case 1:
		// Settle: release a write that was blocked "for a while", then make sure
		// the connection gets closed while operations may still be pending.
		if !r.out.blockForever {
			r.out.more.Set()
		}
		pend := 0
		for _, c := range r.conn {
			if !c.returned {
				pend++
			}
		}
		if pend > 0 {
			r.extra["ops-pending-at-settle-close"] += pend
		}
		simrt.Go("settle-closer", func() {
			r.doClose("settle-closer")
			r.doRead("settle-closer", 2)
			r.doWrite("settle-closer", 2)
		})
		return true
	}
	return false
}

func (r *c41run) Nontrivial(res *simrt.Result) bool {
	done := 0
	for _, c := range r.conn {
		if c.returned {
			done++
		}
	}
	return done >= 2 && res.Switches >= 3
}

func (r *c41run) Check(res *simrt.Result) *simrt.Failure {
	if r.failure != nil {
		return r.failure
	}
	if !r.closeReturned {
		return &simrt.Failure{Class: "hang", Msg: "Close did not return: " + strings.Join(res.Blocked, "; "), Sites: []string{"Close did not return"}}
	}
	for _, c := range r.conn {
		if !c.returned {
			what := "Read"
			if c.write {
				what = "Write"
			}
			return &simrt.Failure{Class: "hang", Msg: fmt.Sprintf("%s by %s still pending at quiescence after Close: %s", what, c.task, strings.Join(res.Blocked, "; ")),
				Sites: []string{what + " pending after Close"}}
		}
	}
	// results that were never delivered (in flight when Close intervened): counted only
	for _, st := range []*stream{r.in, r.out} {
		for _, c := range st.calls {
			if c.returned && !c.delivered {
				r.extra["stream results dropped at Close ("+st.kind()+")"]++
			}
		}
	}
	// per-writer order: the stream saw each writer's buffers in issue order
	last := map[string]int{}
	for _, sc := range r.out.calls {
		for _, cc := range r.conn {
			if cc.write && string(sc.data) == string(cc.want) {
				if cc.seq < last[cc.task] {
					return &simrt.Failure{Class: "oracle:write-order", Msg: "writes of one task reached the stream out of order", Sites: []string{"writes reordered"}}
				}
				last[cc.task] = cc.seq
			}
		}
	}
	// the output is exactly the concatenation of what the stream accepted
	var acc []byte
	for _, sc := range r.out.calls {
		if sc.returned {
			acc = append(acc, sc.data[:sc.n]...)
		}
	}
	if string(acc) != string(r.out.data) {
		return &simrt.Failure{Class: "oracle:output", Msg: "output stream differs from accepted writes", Sites: []string{"output differs"}}
	}
	return nil
}

func TestZSimC41(t *testing.T) { harn.Main(t, c41{}) }
