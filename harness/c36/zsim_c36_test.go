package tool_test

// C36 — the import cache key changes exactly when package sources change.
// The real Importer.PkgHash runs on a real module directory; the simulator
// owns the history of file-system operations and the clock that stamps them
// (steps of zero, nanoseconds, sub-second, seconds, backward jumps, and a
// coarse-granularity file system), and a reference model of the relevant
// projection name -> (size, mtime) decides after every step whether the hash
// had to change or had to stay.

import (
	"strconv"
	"syscall"
	"fmt"
	"go/token"
	"os"
	"path/filepath"
	"sort"
	"strings"
	"testing"
	"time"

	"github.com/goplus/mod/env"
	"github.com/goplus/xgo/tool"
	"github.com/goplus/xgo/zsim/simrt"
	"github.com/goplus/xgo/zsim/simrt/harn"
	"github.com/goplus/xgo/zsim/simrt/simos"
)

type c36 struct{}

func (c36) Name() string { return "C36" }

type step struct {
	Kind  string // create | rewrite | append | truncate | touch | rename | delete | mkdir | subfile
	Name  string
	Name2 string
	Size  int
	Clock int // index into clockSteps
}

var compilable = []string{"a.go", "b.xgo", "c.gop", "d.gox", "main_test.go", "x_test.xgo", ".hidden.go", "gop_autogen.go", "B.xgo", "a.b.go",
	// names whose shape resembles class files, test files or other special cases but which are plain sources
	"round_rect.gox", "foo_test.gox", "x_y.gop", "a_b_c.xgo", "Kai_spx.gox", "-.go", "ü.xgo", "a b.go"}
var irrelevant = []string{"x.tpl", "README.md", "data.txt", "noext", "a.go.bak", "b.xgo~", "_skip.go", "_a.xgo", "go.sum", "c.gop.orig", "Makefile"}
var clockSteps = []time.Duration{0, 1, 999, 1000, 500 * time.Microsecond, 400 * time.Millisecond, time.Second, 1500 * time.Millisecond, 3 * time.Second, time.Hour, -1, -time.Second, -2500 * time.Millisecond, 0, 1}
var grans = []time.Duration{1, 1, time.Microsecond, time.Second, 2 * time.Second}

type c36run struct {
	strat   simrt.Strategy
	longNames bool
	crowd   int // >0: the package starts out with that many further compilable files (large packages)
	steps   []step
	gran    time.Duration
	self    bool
	work    []string
	whash   uint64
	extra   map[string]int
	failure *simrt.Failure
	judged  int
	changed int
}

func (c36) NewRun(plan *simrt.Source, job *harn.Job) harn.Run {
	r := &c36run{extra: map[string]int{}}
	r.strat.Kind = plan.Draw(2) // uniform or sticky, should the code under test ever start goroutines
	r.strat.StickyP = 600
	r.gran = grans[plan.Draw(len(grans))]
	r.self = plan.Chance(500)
	n := 4 + plan.Draw(26)
	if job.Tier == "thorough" {
		n = 4 + plan.Draw(57)
	}
	if plan.Chance(80) {
		// a large package: sizes around the thresholds where implementations switch
		// strategy (batching, parallel stat, buffer growth)
		r.crowd = []int{16, 31, 32, 33, 64, 65}[plan.Draw(6)]
		r.longNames = plan.Chance(500)
		if plan.Chance(120) {
			r.crowd, r.longNames = 260+plan.Draw(80), false // more entries than a directory is usually read in one go
		}
	}
	name := func() string {
		if r.crowd > 0 && plan.Chance(500) {
			return r.cname(plan.Draw(r.crowd))
		}
		if plan.Chance(650) {
			return compilable[plan.Draw(len(compilable))]
		}
		return irrelevant[plan.Draw(len(irrelevant))]
	}
	kinds := []string{"create", "create", "rewrite", "rewrite", "append", "truncate", "touch", "touch", "rename", "delete", "mkdir", "subfile",
		"chmod", "file-to-dir", "dir-to-file", "huge", "epoch", "far-future", "empty", "field-shift", "field-shift",
		// another process changes ONE file while the hash is being computed
		"during:delete", "during:hide", "during:create", "during:touch",
		// the hash is asked for while the directory cannot be listed (an I/O error,
		// or the directory moved away and back): what it returns then is not
		// judged, but it must not disturb the hashes that follow
		"readdir-fails", "dir-away", "recase",
		// the same process also serves another module, one that registers .tpl as a
		// class-file extension: a step there, judged by that module's own rules
		"other-module", "other-module"}
	for i := 0; i < n; i++ {
		s := step{Kind: kinds[plan.Draw(len(kinds))], Name: name(), Name2: name(), Size: plan.Draw(40), Clock: plan.Draw(len(clockSteps))}
		r.steps = append(r.steps, s)
	}
	r.work = append(r.work, fmt.Sprintf("mtime granularity %v, self=%v, %d further source files to begin with (long names: %v)", r.gran, r.self, r.crowd, r.longNames))
	h := uint64(14695981039346656037) ^ uint64(r.gran) ^ uint64(r.crowd)<<20
	for _, s := range r.steps {
		d := fmt.Sprintf("%s %s %s size=%d clock%+v", s.Kind, s.Name, s.Name2, s.Size, clockSteps[s.Clock])
		r.work = append(r.work, d)
		for _, c := range []byte(d) {
			h = (h ^ uint64(c)) * 1099511628211
		}
	}
	r.whash = h
	return r
}

func (r *c36run) Strategy() simrt.Strategy              { return r.strat }
func (r *c36run) CPUs() int { return []int{1, 2, 4, 16}[int(r.whash>>7)%4] }

func (r *c36run) Body(s *simrt.Sim) { r.runSeq(s) }
func (r *c36run) OnStep(s *simrt.Sim) *simrt.Failure     { return nil }
func (r *c36run) StateSig() uint64                       { return 0 }
func (r *c36run) OnQuiesce(s *simrt.Sim, n int) bool     { return false }
func (r *c36run) Workload() interface{}                  { return r.work }
func (r *c36run) WorkHash() uint64                       { return r.whash }
func (r *c36run) Extra() map[string]int                  { return r.extra }
func (r *c36run) Nontrivial(res *simrt.Result) bool      { return r.judged >= 3 && r.changed >= 1 }
func (r *c36run) Check(res *simrt.Result) *simrt.Failure { return r.failure }

// crowdName is the k-th file of a large package.
func crowdName(k int) string {
	return fmt.Sprintf("crowd%03d%s", k, []string{".go", ".xgo", ".gop", ".gox"}[k%4])
}

// longCrowdName: as crowdName, but some hundred bytes long (generated code and
// test data do have such names), so that the listing of a few dozen files runs
// to many kilobytes.
func longCrowdName(k int) string {
	return fmt.Sprintf("crowd%03d_%s%s", k, strings.Repeat("a_rather_long_and_descriptive_file_name_", 3)[:90+k%7], []string{".go", ".xgo", ".gop", ".gox"}[k%4])
}

func (r *c36run) cname(k int) string {
	if r.longNames {
		return longCrowdName(k)
	}
	return crowdName(k)
}

// isRelevant is the reference definition: a compilable, non-underscore name.
func isRelevant(name string) bool {
	if strings.HasPrefix(name, "_") {
		return false
	}
	switch filepath.Ext(name) {
	case ".go", ".xgo", ".gop", ".gox":
		return true
	}
	return false
}

type meta struct {
	size  int64
	mtime int64
}

// project reads the relevant projection from the directory itself (so the
// model cannot drift from what the operations really did).
func project(dir string) (map[string]meta, error) { return projectWith(dir, isRelevant) }

func projectWith(dir string, isRelevant func(string) bool) (map[string]meta, error) {
	ents, err := os.ReadDir(dir)
	if err != nil {
		return nil, err
	}
	out := map[string]meta{}
	for _, e := range ents {
		fi, err := os.Lstat(filepath.Join(dir, e.Name()))
		if err != nil {
			return nil, err
		}
		if !fi.Mode().IsRegular() || !isRelevant(e.Name()) {
			continue
		}
		out[e.Name()] = meta{fi.Size(), fi.ModTime().UnixNano()}
	}
	return out, nil
}

func render(p map[string]meta) string {
	var names []string
	for n := range p {
		names = append(names, n)
	}
	sort.Strings(names)
	var sb strings.Builder
	for _, n := range names {
		fmt.Fprintf(&sb, "%s(%d,%d) ", n, p[n].size, p[n].mtime)
	}
	return sb.String()
}

// runSeq is simulated goroutine 0: the history is applied step by step; the
// code under test is sequential today, and whatever concurrency an edit adds to
// it (the package is instrumented) is scheduled by the simulator.
func (r *c36run) runSeq(sim *simrt.Sim) {
	res := &seqRes{sim: sim, Probes: map[string]int{}, Faults: map[string]int{}}
	defer res.flush()
	fail := func(class, msg, site string) {
		if r.failure == nil {
			r.failure = &simrt.Failure{Class: class, Msg: msg, Sites: []string{site}}
		}
	}
	logf := func(format string, a ...interface{}) {
		sim.Logf(format, a...)
	}
	base := os.Getenv("VERIF_SCRATCH")
	if base == "" {
		base = os.TempDir()
	}
	root := filepath.Join(base, fmt.Sprintf("c36-%d", os.Getpid()))
	os.RemoveAll(root)
	defer os.RemoveAll(root)
	pkgDir := filepath.Join(root, "pkg")
	if err := os.MkdirAll(pkgDir, 0755); err != nil {
		fail("harness", err.Error(), "mkdir")
		return
	}
	os.WriteFile(filepath.Join(root, "go.mod"), []byte("module example.com/c36\n\ngo 1.18\n"), 0644)
	mod, err := tool.LoadMod(root)
	if err != nil {
		fail("harness", "LoadMod: "+err.Error(), "LoadMod")
		return
	}
	imp := tool.NewImporter(mod, &env.XGo{Version: "v1.0.0-sim", Root: root}, token.NewFileSet())
	const pkgPath = "example.com/c36/pkg"
	clock := time.Date(2024, 3, 1, 12, 0, 0, 0, time.UTC)
	stamp := func(path string) {
		t := clock.Truncate(r.gran)
		if err := os.Chtimes(path, t, t); err != nil {
			fail("harness", "chtimes: "+err.Error(), "chtimes")
			return
		}
		if fi, err := os.Lstat(path); err != nil || !fi.ModTime().Equal(t) {
			fail("harness", "the scratch file system cannot represent the simulated mtime", "chtimes")
		}
	}
	content := func(n int, salt int) []byte {
		b := make([]byte, n)
		for i := range b {
			b[i] = byte('a' + (i*7+salt)%26)
		}
		return b
	}
	hash := uint64(1469598103934665603)
	mix := func(s string) {
		for i := 0; i < len(s); i++ {
			hash = (hash ^ uint64(s[i])) * 1099511628211
		}
	}
	for k := 0; k < r.crowd; k++ {
		p := filepath.Join(pkgDir, r.cname(k))
		os.WriteFile(p, content(10+k%7, k), 0644)
		stamp(p)
	}
	if r.crowd > 0 {
		res.Probes[fmt.Sprintf("large-package-%d-files", r.crowd)]++
	}
	// The directory's own modification time belongs to the simulated clock too
	// (the kernel stamps it with the real clock whenever an entry appears or
	// disappears): whenever it has moved, it is re-stamped.
	dirStamp := map[string]time.Time{}
	restampDir := func(dir string) {
		if fi, err := os.Lstat(dir); err == nil && !fi.ModTime().Equal(dirStamp[dir]) {
			stamp(dir)
			if fi, err := os.Lstat(dir); err == nil {
				dirStamp[dir] = fi.ModTime()
			}
		}
	}
	// the other module (created at its first step)
	var (
		impB      *tool.Importer
		dirB      string
		prevProjB map[string]meta
		prevHashB string
	)
	relB := func(name string) bool { return isRelevant(name) || filepath.Ext(name) == ".tpl" }
	stepB := func(i int, st step) {
		if impB == nil {
			rootB := root + "-app"
			os.RemoveAll(rootB)
			dirB = filepath.Join(rootB, "pkg")
			os.MkdirAll(dirB, 0755)
			os.WriteFile(filepath.Join(rootB, "go.mod"), []byte("module example.com/c36app\n\ngo 1.18\n"), 0644)
			os.WriteFile(filepath.Join(rootB, "gox.mod"), []byte("xgo 1.5\n\nproject main.tpl App example.com/c36app/rt\nclass .tpl Page\n"), 0644)
			modB, err := tool.LoadMod(rootB)
			if err != nil {
				fail("harness", "LoadMod of the second module: "+err.Error(), "LoadMod")
				return
			}
			impB = tool.NewImporter(modB, &env.XGo{Version: "v1.0.0-sim", Root: rootB}, token.NewFileSet())
			os.WriteFile(filepath.Join(dirB, "a.go"), []byte("package pkg\n"), 0644)
			stamp(filepath.Join(dirB, "a.go"))
			restampDir(dirB)
			prevProjB, _ = projectWith(dirB, relB)
			prevHashB = impB.PkgHash("example.com/c36app/pkg", r.self)
			res.Probes["second-module-with-class-extension"]++
		}
		name := []string{"index.tpl", "about.tpl", "a.go", "notes.txt", "page.tpl"}[st.Size%5]
		p := filepath.Join(dirB, name)
		did := "create"
		if fi, err := os.Lstat(p); err != nil {
			os.WriteFile(p, content(3+st.Size%9, i), 0644)
			stamp(p)
		} else if st.Clock%3 == 0 {
			did = "delete"
			os.Remove(p)
		} else if st.Clock%3 == 1 {
			did = "rewrite"
			os.WriteFile(p, content(int(fi.Size()), i+1), 0644)
			stamp(p)
		} else {
			did = "touch"
			stamp(p)
		}
		restampDir(dirB)
		proj, err := projectWith(dirB, relB)
		if err != nil {
			fail("harness", err.Error(), "project")
			return
		}
		h := impB.PkgHash("example.com/c36app/pkg", r.self)
		same := render(proj) == render(prevProjB)
		r.judged++
		mix("B:" + did + h[:4])
		logf("step %d: other module: %s %s -> %v: hash %s", i, did, name, same, h[:12])
		if same && h != prevHashB {
			fail("oracle:spurious-change", fmt.Sprintf("step %d (other module, %s %s): only irrelevant entries changed but the hash changed", i, did, name), "hash changed although no relevant file changed: "+did+" in the module with class files")
		}
		if !same {
			r.changed++
			if h == prevHashB {
				fail("oracle:missed-change", fmt.Sprintf("step %d (other module, %s %s): the relevant projection changed but the hash did not\nbefore: %s\nafter:  %s", i, did, name, render(prevProjB), render(proj)), "hash unchanged although a relevant file changed: "+did+" in the module with class files "+describeDiff(prevProjB, proj))
			}
		}
		prevProjB, prevHashB = proj, h
	}
	defer func() { os.RemoveAll(root + "-app") }()
	restampDir(pkgDir)
	prevProj, _ := project(pkgDir)
	prevHash := imp.PkgHash(pkgPath, r.self)
	if prevHash == "" || strings.HasPrefix(prevHash, "?") {
		fail("harness", "PkgHash returned "+prevHash, "PkgHash")
		return
	}
	exists := func(name string) bool {
		_, err := os.Lstat(filepath.Join(pkgDir, name))
		return err == nil
	}
	for i, st := range r.steps {
		if r.failure != nil {
			break
		}
		clock = clock.Add(clockSteps[st.Clock])
		if st.Kind == "other-module" {
			stepB(i, st)
			continue
		}
		p := filepath.Join(pkgDir, st.Name)
		did := st.Kind
		switch st.Kind {
		case "create":
			if exists(st.Name) {
				did = "skip"
				break
			}
			os.WriteFile(p, content(st.Size, i), 0644)
			stamp(p)
		case "rewrite": // same size, different bytes
			fi, err := os.Lstat(p)
			if err != nil || !fi.Mode().IsRegular() {
				did = "skip"
				break
			}
			if fi.Size() > 1<<20 {
				// a sparse giant: change a few bytes in place, do not materialise it
				if f, err := os.OpenFile(p, os.O_WRONLY, 0644); err == nil {
					f.WriteAt(content(16, i+1), 0)
					f.Close()
				}
			} else {
				os.WriteFile(p, content(int(fi.Size()), i+1), 0644)
			}
			stamp(p)
			res.Faults["same-size-edit"]++
		case "append":
			fi, err := os.Lstat(p)
			if err != nil || !fi.Mode().IsRegular() {
				did = "skip"
				break
			}
			f, _ := os.OpenFile(p, os.O_APPEND|os.O_WRONLY, 0644)
			f.Write(content(1+st.Size%5, i))
			f.Close()
			stamp(p)
		case "truncate":
			fi, err := os.Lstat(p)
			if err != nil || !fi.Mode().IsRegular() || fi.Size() == 0 {
				did = "skip"
				break
			}
			os.Truncate(p, fi.Size()/2)
			stamp(p)
		case "touch":
			fi, err := os.Lstat(p)
			if err != nil || !fi.Mode().IsRegular() {
				did = "skip"
				break
			}
			stamp(p)
		case "rename":
			fi, err := os.Lstat(p)
			if err != nil || !fi.Mode().IsRegular() || st.Name == st.Name2 {
				did = "skip"
				break
			}
			if fi2, err := os.Lstat(filepath.Join(pkgDir, st.Name2)); err == nil && fi2.IsDir() {
				did = "skip"
				break
			}
			os.Rename(p, filepath.Join(pkgDir, st.Name2)) // keeps the mtime, like mv
		case "recase": // the same name in another case is another name (git mv foo.go Foo.go)
			fi, err := os.Lstat(p)
			b := []byte(st.Name)
			for k := range b {
				if b[k] >= 'a' && b[k] <= 'z' {
					b[k] -= 32
					break
				} else if b[k] >= 'A' && b[k] <= 'Z' {
					b[k] += 32
					break
				}
			}
			if _, e2 := os.Lstat(filepath.Join(pkgDir, string(b))); err != nil || !fi.Mode().IsRegular() || e2 == nil || string(b) == st.Name {
				did = "skip"
				break
			}
			os.Rename(p, filepath.Join(pkgDir, string(b)))
		case "delete":
			fi, err := os.Lstat(p)
			if err != nil || !fi.Mode().IsRegular() {
				did = "skip"
				break
			}
			os.Remove(p)
		case "chmod": // permission bits are not part of the projection
			fi, err := os.Lstat(p)
			if err != nil || !fi.Mode().IsRegular() {
				did = "skip"
				break
			}
			os.Chmod(p, []os.FileMode{0600, 0644, 0755, 0444}[st.Size%4])
		case "file-to-dir": // the name stays, but it is no longer a regular file
			fi, err := os.Lstat(p)
			if err != nil || !fi.Mode().IsRegular() {
				did = "skip"
				break
			}
			os.Remove(p)
			os.Mkdir(p, 0755)
			stamp(p)
		case "dir-to-file":
			fi, err := os.Lstat(p)
			if err != nil || !fi.IsDir() {
				did = "skip"
				break
			}
			if os.Remove(p) != nil { // not empty
				did = "skip"
				break
			}
			os.WriteFile(p, content(st.Size, i), 0644)
			stamp(p)
		case "huge": // sparse file: sizes beyond 32 bits
			fi, err := os.Lstat(p)
			if err != nil || !fi.Mode().IsRegular() {
				did = "skip"
				break
			}
			os.Truncate(p, int64(1)<<32+fi.Size()%1000)
			stamp(p)
		case "empty":
			fi, err := os.Lstat(p)
			if err != nil || !fi.Mode().IsRegular() {
				did = "skip"
				break
			}
			os.Truncate(p, 0)
			stamp(p)
		case "field-shift":
			// a restored older copy whose size and modification time BOTH differ, chosen so
			// that the two numbers written one after the other (hex for even sizes of the
			// step, decimal otherwise) read the same as before: the leading digit of the
			// time moves to the end of the size. Any encoding that keeps the fields apart
			// tells the two states apart.
			fi, err := os.Lstat(p)
			if err != nil || !fi.Mode().IsRegular() || fi.Size() == 0 || fi.Size() > 1<<40 || fi.ModTime().UnixNano() <= 0 {
				did = "skip"
				break
			}
			base := 16
			if st.Size%2 == 1 {
				base = 10
			}
			ms := strconv.FormatInt(fi.ModTime().UnixNano(), base)
			if len(ms) < 2 || ms[1] == '0' {
				did = "skip"
				break
			}
			lead, _ := strconv.ParseInt(ms[:1], base, 64)
			rest, _ := strconv.ParseInt(ms[1:], base, 64)
			os.Truncate(p, fi.Size()*int64(base)+lead)
			t := time.Unix(0, rest)
			os.Chtimes(p, t, t)
			res.Faults["field-shift"]++
		case "epoch", "far-future": // extreme modification times (a restored backup, a broken clock)
			fi, err := os.Lstat(p)
			if err != nil || !fi.Mode().IsRegular() {
				did = "skip"
				break
			}
			t := time.Unix(int64(st.Size), int64(st.Size)*7)
			if st.Kind == "far-future" {
				t = time.Date(2200, 1, 1, 0, 0, st.Size, st.Size, time.UTC)
			}
			os.Chtimes(p, t, t)
		case "mkdir":
			d := filepath.Join(pkgDir, "dir_"+st.Name)
			os.Mkdir(d, 0755)
			stamp(d)
		case "subfile":
			d := filepath.Join(pkgDir, "dir_"+st.Name2)
			os.Mkdir(d, 0755)
			sp := filepath.Join(d, st.Name)
			os.WriteFile(sp, content(st.Size, i), 0644)
			stamp(sp)
			stamp(d) // the kernel stamped the directory with the real clock; the simulated clock owns all times
		}
		if clockSteps[st.Clock] < 0 {
			res.Faults["clock-jumped-back"]++
		} else if clockSteps[st.Clock] == 0 {
			res.Faults["clock-tie"]++
		}
		if r.failure != nil {
			break
		}
		switch st.Kind {
		case "readdir-fails":
			simos.Install(&simos.Hooks{Read: func(kind, path string) error {
				if kind == "readdir" {
					res.Faults["readdir-error"]++
					return syscall.EIO
				}
				return nil
			}})
			imp.PkgHash(pkgPath, r.self)
			simos.Install(nil)
		case "dir-away":
			if os.Rename(pkgDir, pkgDir+".away") == nil {
				imp.PkgHash(pkgPath, r.self)
				res.Faults["directory-away-during-hash"]++
				os.Rename(pkgDir+".away", pkgDir)
			}
		}
		if strings.HasPrefix(st.Kind, "during:") {
			// The change happens WHILE PkgHash runs: at a seeded point between its
			// look at the directory listing and its looks at the individual files.
			// A scan that reads each file's attributes once, at some instant, sees
			// the state before or the state after this single-file change — the
			// operation linearizes before or after it; any other value is the hash
			// of a directory that never existed.
			fi, lerr := os.Lstat(p)
			okTarget := lerr == nil && fi.Mode().IsRegular()
			if st.Kind == "during:create" {
				okTarget = lerr != nil
			}
			if !okTarget {
				did = "skip"
			} else {
				at, n, fired := st.Size%(len(prevProj)+2), 0, false
				simos.Install(&simos.Hooks{Read: func(kind, path string) error {
					if n == at && !fired {
						fired = true
						switch st.Kind {
						case "during:delete":
							os.Remove(p)
						case "during:hide":
							os.Rename(p, filepath.Join(pkgDir, "_hidden_"+st.Name))
						case "during:create":
							os.WriteFile(p, content(1+st.Size, i), 0644)
							stamp(p)
						case "during:touch":
							stamp(p)
						}
						res.Faults["file-changed-while-hashing:"+kind]++
					}
					n++
					return nil
				}})
				hd := imp.PkgHash(pkgPath, r.self)
				simos.Install(nil)
				if !fired {
					res.Probes["concurrent-change-point-not-reached"]++
				} else {
					restampDir(pkgDir)
					hq := imp.PkgHash(pkgPath, r.self)
					r.judged++
					if hd != prevHash && hd != hq {
						fail("oracle:torn-hash", fmt.Sprintf("step %d (%s %s at read %d of the scan): the hash computed while the file changed (%s) is neither the hash before the change (%s) nor the hash after it (%s)", i, st.Kind, st.Name, at, hd[:10], prevHash[:10], hq[:10]), "hash of a directory state that never existed: "+st.Kind+" "+kindOf(st.Name))
					}
				}
			}
		}
		restampDir(pkgDir)
		proj, err := project(pkgDir)
		if err != nil {
			fail("harness", err.Error(), "project")
			break
		}
		h := imp.PkgHash(pkgPath, r.self)
		same := render(proj) == render(prevProj)
		r.judged++
		mix(did)
		mix(h[:4])
		logf("step %d: %s %s %s -> relevant projection %s: hash %s", i, did, st.Name, st.Name2, map[bool]string{true: "unchanged", false: "CHANGED"}[same], h[:12])
		if same && h != prevHash {
			fail("oracle:spurious-change", fmt.Sprintf("step %d (%s %s %s): only irrelevant entries changed but the hash changed\nprojection: %s", i, did, st.Name, st.Name2, render(proj)), "hash changed although no relevant file changed: "+did+" "+kindOf(st.Name))
		}
		if !same {
			r.changed++
			if h == prevHash {
				fail("oracle:missed-change", fmt.Sprintf("step %d (%s %s %s): the relevant projection changed but the hash did not\nbefore: %s\nafter:  %s", i, did, st.Name, st.Name2, render(prevProj), render(proj)), "hash unchanged although a relevant file changed: "+did+" "+describeDiff(prevProj, proj))
			}
		}
		prevProj, prevHash = proj, h
	}
	r.extra["steps-judged"] += r.judged
	r.extra["relevant-changes"] += r.changed
	sim.Mix(hash)
}

// seqRes collects fault and probe counts and hands them to the simulation.
type seqRes struct {
	sim            *simrt.Sim
	Probes, Faults map[string]int
}

func (q *seqRes) flush() {
	for k, n := range q.Probes {
		for i := 0; i < n; i++ {
			q.sim.Probe(k)
		}
	}
	for k, n := range q.Faults {
		for i := 0; i < n; i++ {
			q.sim.Fault(k)
		}
	}
}

func kindOf(name string) string {
	if strings.HasPrefix(name, "_") {
		return "underscore file"
	}
	if isRelevant(name) {
		return "compilable file"
	}
	return "other file"
}

// describeDiff classifies what changed for the fingerprint.
func describeDiff(a, b map[string]meta) string {
	var kinds []string
	add := func(k string) {
		for _, x := range kinds {
			if x == k {
				return
			}
		}
		kinds = append(kinds, k)
	}
	for n, m := range a {
		m2, ok := b[n]
		switch {
		case !ok:
			add("name")
		case m.size != m2.size:
			add("size")
		case m.mtime != m2.mtime:
			if m.mtime/1e9 == m2.mtime/1e9 {
				add("mtime within one second")
			} else {
				add("mtime")
			}
		}
	}
	for n := range b {
		if _, ok := a[n]; !ok {
			add("name")
		}
	}
	sort.Strings(kinds)
	return strings.Join(kinds, "+")
}

func TestZSimC36(t *testing.T) { harn.Main(t, c36{}) }
