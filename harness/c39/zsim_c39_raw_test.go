package jsonrpc2_test

// Raw-peer configuration of the C39 simulation: endpoint A is a real
// jsonrpc2.Connection, the other end of the pipe is a scripted peer that
// speaks the wire protocol directly and may misbehave — duplicate responses,
// responses with unknown or wrong-kind ids, error responses, no response at
// all, garbage frames, duplicate request ids, requests that are never read
// back. The library must still complete every call exactly once with the
// FIRST response that carried its id (or an error), answer each incoming
// call at most once, and Close must return once the peer is gone.

import (
	"bufio"
	"context"
	"encoding/json"
	"fmt"
	"io"
	"strconv"
	"strings"

	"github.com/goplus/xgo/zsim/simrt"
	"github.com/goplus/xgo/zsim/simrt/simnet"
	"github.com/goplus/xgo/zsim/simrt/ssync"
)

type rawFirst struct {
	val   int64
	isErr bool
}

type rawReq struct {
	id     string // JSON text of the id
	method string
	nonce  int64
	answers int
	got     simrt.Event // set when a response with this id has been read (or the peer's reader ended)
	reused  *rawReq     // on a later request with a fresh id: the re-used-id request sent just before it
}

type rawPeer struct {
	r     *c39run
	end   *simnet.End
	wmu   ssync.Mutex
	first map[string]rawFirst // keyed like idStr(): "int64:7"
	sent  []*rawReq
	script []int
	closed bool
	readerGone bool
}

type rawDialer struct{ end *simnet.End }

func (d rawDialer) Dial(ctx context.Context) (io.ReadWriteCloser, error) { return d.end, nil }

func (p *rawPeer) write(body string) error {
	p.wmu.Lock()
	defer p.wmu.Unlock()
	_, err := p.end.Write([]byte(fmt.Sprintf("Content-Length: %d\r\n\r\n%s", len(body), body)))
	return err
}

type rawMsg struct {
	Version string          `json:"jsonrpc"`
	ID      json.RawMessage `json:"id"`
	Method  string          `json:"method"`
	Params  json.RawMessage `json:"params"`
	Result  json.RawMessage `json:"result"`
	Error   json.RawMessage `json:"error"`
}

// reader is the peer's read loop: it answers A's calls according to the
// seeded script and records A's answers to the peer's own calls.
func (p *rawPeer) reader() {
	r := p.r
	br := bufio.NewReader(p.end)
	defer func() {
		p.readerGone = true
		for _, q := range p.sent {
			q.got.Set()
		}
	}()
	for {
		length := 0
		for {
			line, err := br.ReadString('\n')
			if err != nil {
				return
			}
			line = strings.TrimSpace(line)
			if line == "" {
				break
			}
			if strings.HasPrefix(line, "Content-Length:") {
				length, _ = strconv.Atoi(strings.TrimSpace(line[len("Content-Length:"):]))
			}
		}
		body := make([]byte, length)
		if _, err := io.ReadFull(br, body); err != nil {
			return
		}
		var m rawMsg
		if err := json.Unmarshal(body, &m); err != nil {
			r.fail("oracle:wire", "A wrote a frame that is not JSON: "+string(body), "A wrote an invalid frame")
			return
		}
		if m.Method == "" {
			// A's answer to one of the peer's calls
			id := string(m.ID)
			var hit *rawReq
			n := 0
			for _, q := range p.sent {
				if q.id == id {
					n++
					if hit == nil {
						hit = q
					}
				}
			}
			if hit == nil {
				r.note("response written for an id that never arrived")
				continue
			}
			hit.answers++
			hit.got.Set()
			if q3 := lastWithID(p.sent, id); q3 != nil && q3.reused != nil && len(m.Error) == 0 {
				// A accepted and answered (with a result) a request that was sent AFTER the
				// one re-using an id whose previous response the peer had already received:
				// A read that one earlier, was not shutting down then, and answers in order —
				// so its response must have arrived by now.
				first := firstWithID(p.sent, q3.reused.id)
				if first.answers < 2 {
					r.fail("oracle:unanswered-call", fmt.Sprintf("the peer re-used id %s after receiving its response; that request was never answered although the request sent after it (id %s) was", q3.reused.id, id), "a call re-using a retired id is never answered")
				} else {
					r.sim.Probe("raw-peer-reused-retired-id-answered")
				}
			}
			if hit.answers > n {
				r.fail("oracle:duplicate-response", fmt.Sprintf("A sent %d responses for id %s (%d requests carried it)", hit.answers, id, n), "incoming call answered more than once")
			}
			if len(m.Error) == 0 && n == 1 && (hit.method == "echo" || hit.method == "peek") {
				var v int64
				json.Unmarshal(m.Result, &v)
				if v != expected(hit.method, hit.nonce) {
					r.fail("oracle:wrong-answer", fmt.Sprintf("A answered the peer's %s(nonce %d) id %s with %d", hit.method, hit.nonce, id, v), "peer received another call's answer")
				}
			}
			r.sim.Probe("raw-peer-got-response")
			continue
		}
		if len(m.ID) == 0 {
			continue // notification from A
		}
		// a call from A: answer per script
		var prm params
		json.Unmarshal(m.Params, &prm)
		var idv int64
		json.Unmarshal(m.ID, &idv)
		key := fmt.Sprintf("int64:%d", idv)
		want := expected(m.Method, prm.Nonce)
		good := fmt.Sprintf(`{"jsonrpc":"2.0","id":%d,"result":%d}`, idv, want)
		isErr := want < 0
		if isErr {
			good = fmt.Sprintf(`{"jsonrpc":"2.0","id":%d,"error":{"code":-32601,"message":"raw peer: no such method"}}`, idv)
		}
		act := r.sim.Sched().Draw(9)
		send := func(body string) bool { return p.write(body) == nil }
		record := func(e bool) {
			if _, ok := p.first[key]; !ok {
				p.first[key] = rawFirst{val: want, isErr: e}
			}
		}
		switch act {
		case 3: // duplicate response, the second one with a different payload
			record(isErr)
			if !send(good) {
				return
			}
			send(fmt.Sprintf(`{"jsonrpc":"2.0","id":%d,"result":424242}`, idv))
			r.sim.Fault("peer:duplicate-response")
		case 4: // a response for an id nobody uses, then the real one
			send(fmt.Sprintf(`{"jsonrpc":"2.0","id":%d,"result":515151}`, idv+100000))
			record(isErr)
			send(good)
			r.sim.Fault("peer:unknown-id-response")
		case 5: // same digits but a string id, then the real one
			send(fmt.Sprintf(`{"jsonrpc":"2.0","id":"%d","result":616161}`, idv))
			record(isErr)
			send(good)
			r.sim.Fault("peer:wrong-kind-id-response")
		case 6: // an error response
			record(true)
			send(fmt.Sprintf(`{"jsonrpc":"2.0","id":%d,"error":{"code":-32000,"message":"raw peer says no"}}`, idv))
			r.sim.Fault("peer:error-response")
		case 7: // never answered
			r.sim.Fault("peer:no-response")
		case 8: // answered, then the stream turns into garbage
			record(isErr)
			send(good)
			if r.sim.Sched().Chance(300) {
				send("this is not a frame")
				p.wmu.Lock()
				p.end.Write([]byte("garbage without header\r\n\r\n"))
				p.wmu.Unlock()
				r.sim.Fault("peer:garbage-frame")
			}
		default:
			record(isErr)
			send(good)
		}
	}
}

// caller sends the peer's own requests to A.
func (p *rawPeer) caller() {
	r := p.r
	for i, s := range p.script {
		simrt.Yield("raw.caller")
		nonce := int64(900000 + i)
		switch s {
		case 0, 1: // ordinary call, integer id
			id := fmt.Sprint(7000 + i)
			p.sent = append(p.sent, &rawReq{id: id, method: "echo", nonce: nonce})
			p.write(fmt.Sprintf(`{"jsonrpc":"2.0","id":%s,"method":"echo","params":{"nonce":%d}}`, id, nonce))
		case 2: // string id, answered on A's read loop
			id := fmt.Sprintf(`"s%d"`, i)
			p.sent = append(p.sent, &rawReq{id: id, method: "peek", nonce: nonce})
			p.write(fmt.Sprintf(`{"jsonrpc":"2.0","id":%s,"method":"peek","params":{"nonce":%d}}`, id, nonce))
		case 3: // two requests in flight with the same id
			id := fmt.Sprint(8000 + i)
			p.sent = append(p.sent, &rawReq{id: id, method: "slow", nonce: nonce}, &rawReq{id: id, method: "echo", nonce: nonce + 1})
			p.write(fmt.Sprintf(`{"jsonrpc":"2.0","id":%s,"method":"slow","params":{"nonce":%d}}`, id, nonce))
			p.write(fmt.Sprintf(`{"jsonrpc":"2.0","id":%s,"method":"echo","params":{"nonce":%d}}`, id, nonce+1))
			r.sim.Fault("peer:duplicate-request-id")
		case 4: // notification and a cancel for an id that may or may not exist
			p.write(fmt.Sprintf(`{"jsonrpc":"2.0","method":"echo","params":{"nonce":%d}}`, nonce))
			p.write(fmt.Sprintf(`{"jsonrpc":"2.0","method":"cancel","params":{"id":%d}}`, 7000+i-1))
		case 6: // an asynchronously answered request is still open when A starts closing; then its id is reused
			id := fmt.Sprint(9000 + i)
			p.sent = append(p.sent, &rawReq{id: id, method: "async", nonce: nonce}, &rawReq{id: id, method: "echo", nonce: nonce + 1})
			p.write(fmt.Sprintf(`{"jsonrpc":"2.0","id":%s,"method":"async","params":{"nonce":%d}}`, id, nonce))
			r.aClosing.Wait("raw.caller waits for A to start closing")
			p.write(fmt.Sprintf(`{"jsonrpc":"2.0","id":%s,"method":"echo","params":{"nonce":%d}}`, id, nonce+1))
			r.sim.Fault("peer:duplicate-request-id-while-closing")
		case 7: // an id re-used as soon as its response has been received (legal), then a fresh one
			id := fmt.Sprint(9500 + i)
			q1 := &rawReq{id: id, method: "echo", nonce: nonce}
			p.sent = append(p.sent, q1)
			if p.write(fmt.Sprintf(`{"jsonrpc":"2.0","id":%s,"method":"echo","params":{"nonce":%d}}`, id, nonce)) != nil || p.readerGone {
				break
			}
			q1.got.Wait("raw.caller waits for the response before re-using its id")
			if p.readerGone || q1.answers == 0 {
				break
			}
			q2 := &rawReq{id: id, method: "echo", nonce: nonce + 1}
			id3 := fmt.Sprint(9600 + i)
			q3 := &rawReq{id: id3, method: "echo", nonce: nonce + 2, reused: q2}
			p.sent = append(p.sent, q2, q3)
			p.write(fmt.Sprintf(`{"jsonrpc":"2.0","id":%s,"method":"echo","params":{"nonce":%d}}`, id, nonce+1))
			p.write(fmt.Sprintf(`{"jsonrpc":"2.0","id":%s,"method":"echo","params":{"nonce":%d}}`, id3, nonce+2))
			r.sim.Fault("peer:id-reused-after-its-response")
		case 5: // a response nobody asked for
			// (an id A never uses: whether a response that races with the
			// registration of a call counts is undecidable from outside)
			p.write(fmt.Sprintf(`{"jsonrpc":"2.0","id":%d,"result":717171}`, 500000+i))
			r.sim.Fault("peer:response-before-request")
		}
	}
}

func firstWithID(l []*rawReq, id string) *rawReq {
	for _, q := range l {
		if q.id == id {
			return q
		}
	}
	return nil
}

func lastWithID(l []*rawReq, id string) *rawReq {
	for i := len(l) - 1; i >= 0; i-- {
		if l[i].id == id {
			return l[i]
		}
	}
	return nil
}

func (r *c39run) startRaw() {
	a, b := simnet.Pipe("A", "B", r.net.Cap)
	a.F = r.net.A
	r.eps[0].end = a
	r.rawp = &rawPeer{r: r, end: b, first: map[string]rawFirst{}, script: r.rawScript}
	if _, err := jsonrpc2Dial(rawDialer{a}, r.eps[0]); err != nil {
		r.fail("harness", "Dial failed: "+err.Error(), "Dial")
		return
	}
	simrt.Go("raw.reader", r.rawp.reader)
	simrt.Go("raw.caller", r.rawp.caller)
}

// rawAwaitOK is the own-answer oracle for the raw configuration.
func (r *c39run) rawAwaitOK(cr *callRec, aw *awaitRec) {
	if aw.err != nil {
		return
	}
	f, ok := r.rawp.first[cr.id]
	switch {
	case !ok:
		r.fail("oracle:wrong-answer", fmt.Sprintf("call %s(%s) succeeded with %d but the peer never sent a response with that id", cr.method, cr.id, aw.val), "Await succeeded without a response carrying its id")
	case f.isErr:
		r.fail("oracle:wrong-answer", fmt.Sprintf("call %s(%s) succeeded with %d but the first response with its id was an error", cr.method, cr.id, aw.val), "Await ignored the error response carrying its id")
	case f.val != aw.val:
		r.fail("oracle:wrong-answer", fmt.Sprintf("call %s(%s) returned %d; the first response carrying its id held %d", cr.method, cr.id, aw.val, f.val), "Await returned another response's payload")
	}
}
