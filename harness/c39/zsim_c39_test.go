//go:debug asynctimerchan=0

package jsonrpc2_test

// C39 — every JSON-RPC call completes exactly once with its own answer.
// Two real jsonrpc2 connections (Dial on one side, NewServer on the other)
// over a simulated transport; caller tasks, handlers, asynchronous responders,
// cancellations and Close calls are simulated goroutines, every interleaving
// and every transport fault is decided by the seeded scheduler.

import (
	"context"
	"encoding/json"
	"errors"
	"fmt"
	"io"
	"net"
	"reflect"
	"sort"
	"strings"
	"testing"
	"time"

	"github.com/goplus/xgo/x/fakenet"
	"github.com/goplus/xgo/x/jsonrpc2"
	"github.com/goplus/xgo/zsim/simrt"
	"github.com/goplus/xgo/zsim/simrt/harn"
	"github.com/goplus/xgo/zsim/simrt/simnet"
)

type c39 struct{}

func (c39) Name() string { return "C39" }

type params struct {
	Nonce int64 `json:"nonce"`
	ID    int64 `json:"id,omitempty"`
}

func expected(method string, nonce int64) int64 {
	switch method {
	case "echo", "slow", "async", "peek", "pasync", "asyncin":
		return nonce*3 + 1
	case "reenter":
		return (nonce+500000)*3 + 1
	}
	return -1
}

// --- plan ------------------------------------------------------------------

type opPlan struct {
	Kind      string // call | notify | close | wait | yield
	Method    string
	Awaiters  int  // 1 or 2
	CancelCtx int  // >0: the Await context is cancelled after that many yields
	CancelMsg bool // send a "cancel" notification for the call before awaiting
	ReAwait   bool // await again with a background context afterwards
	CallCtx   int  // context given to Call/Notify itself: 0 background, 1 already cancelled, k>1 cancelled after k-1 yields
	N         int  // yield count
}

type taskPlan struct {
	Ep  int
	Ops []opPlan
}

type netPlan struct {
	Cap                      int
	FaultFree                bool
	A, B                     simnet.Faults
	Desc                     string
}

type c39run struct {
	strat    simrt.Strategy
	tasks    []taskPlan
	net      netPlan
	eps      []*endpoint // A, B; with a second client also C (client) and D (its server side)
	sim      *simrt.Sim
	ev       int64
	calls    []*callRec
	failure  *simrt.Failure
	phase    int
	nonce    int64
	server   *jsonrpc2.Server
	lis      *listener
	release  chan struct{}
	released bool
	tasksDone int
	tasksAll  int
	srvWaited bool
	whash    uint64
	work     []string
	extra    map[string]int
	anyClose bool // Close has been invoked on some endpoint
	settle   bool
	raw       bool // endpoint B is a scripted raw peer instead of a real connection
	rawScript []int
	rawp      *rawPeer
	viaFakenet bool // both connections run over x/fakenet conns whose underlying reads ignore Close (the stdio deployment)
	second    int // >0: a second client dials the same server and makes that many calls
	accepted  int
	aClosing  simrt.Event // set when Close is invoked on A
	earlyShutdown int     // >0: with a second client, the server is shut down after that many yields (racing with its Dial)
	eagerBind int         // 1: A's Binder spawns a goroutine that calls at once; 2: and one that closes
	idle      int         // >0: the server listens through NewIdleListener with that timeout (simulated milliseconds)
	bindNext  int         // index of the endpoint record for the connection the listener handed out last
	lateDials int         // idle configuration: further clients that dial, call and close one after the other
	lateGo    simrt.Event // set when A has closed (or the settle phase begins): the late clients start
	acceptErr int         // >0: after that many yields the listener's pending or next Accept fails once with an ordinary error (EMFILE-like)
	flood     int         // >0: that many concurrent callers on EACH side call a method the peer answers from its read loop
}

type msgRec struct {
	seq   int64
	resp  bool
	id    string
	meth  string
}

type endpoint struct {
	r        *c39run
	idx      int
	name     string
	conn     *jsonrpc2.Connection
	end      *simnet.End
	handling int
	asyncOpen map[string]bool
	wrote    []msgRec
	read     []msgRec
	closeInv bool
	closeRet bool
	ierrs    []string
	arrived  []int64 // nonces of requests in the order they were read
	unblock  map[int64]chan struct{} // per-call release of a slow handler ("unblock" notification)
	unblocked map[int64]bool
	handledAt int    // position in arrived of the last request given to Handle
}

type awaitRec struct {
	err     error
	val     int64
	done    bool
	ctxCancelled bool
	beforeAnyClose bool
	background bool
}

type callRec struct {
	ep       *endpoint
	method   string
	nonce    int64
	id       string
	ac       *jsonrpc2.AsyncCall
	awaits   []*awaitRec
	cancelled bool
	readyAt  int64
	sawReady bool
	inner    bool
}

func (r *c39run) fail(class, msg, site string) {
	if r.failure == nil {
		r.failure = &simrt.Failure{Class: class, Msg: msg, Sites: []string{site}}
	}
}

func (r *c39run) tick() int64 { r.ev++; return r.ev }

// note counts an observation that would contradict the package's documented
// behaviour but is NOT part of the statement of C39; it is reported in the
// evidence (probes "beyond-statement:*") and never raises a violation.
func (r *c39run) note(what string) {
	if r.sim != nil {
		r.sim.Probe("beyond-statement:" + what)
	}
}

func drawStrategy(plan *simrt.Source, ngo int) simrt.Strategy {
	var st simrt.Strategy
	st.Kind = plan.Draw(4)
	st.StickyP = 500 + 100*plan.Draw(5)
	if st.Kind == 2 {
		d := 1 + plan.Draw(5)
		for i := 0; i < d; i++ {
			st.PCTSteps = append(st.PCTSteps, plan.Draw(600))
		}
	}
	if st.Kind == 3 {
		st.Victim = 1 + plan.Draw(ngo)
		st.Until = 20 + plan.Draw(600)
	}
	return st
}

var methods = []string{"echo", "echo", "peek", "slow", "async", "reenter", "fail", "nosuch", "pasync", "badparams", "asyncin"}

func (c39) NewRun(plan *simrt.Source, job *harn.Job) harn.Run {
	r := &c39run{extra: map[string]int{}}
	r.strat = drawStrategy(plan, 10)
	maxOps := 5
	if job.Tier == "thorough" {
		maxOps = 10
	}
	if v, ok := job.Knobs["max_ops"]; ok {
		maxOps = v
	}
	// transport
	caps := []int{0, 0, 64, 4096}
	r.net.Cap = caps[plan.Draw(len(caps))]
	if v, ok := job.Knobs["cap"]; ok {
		r.net.Cap = v
	}
	r.net.FaultFree = plan.Chance(350)
	if job.Knobs["fault_free"] == 1 {
		r.net.FaultFree = true
	}
	if !r.net.FaultFree {
		for i, f := range []*simnet.Faults{&r.net.A, &r.net.B} {
			_ = i
			f.ShortReads = plan.Chance(500)
			f.ShortWrite = plan.Chance(400)
			if plan.Chance(200) {
				f.WriteErrAt = 1 + plan.Draw(12)
			}
			if plan.Chance(150) {
				f.ReadErrAt = 2 + plan.Draw(30)
			}
			if plan.Chance(150) {
				f.CutAtByte = 1 + plan.Draw(600)
			}
			if plan.Chance(150) {
				f.StallAt = 1 + plan.Draw(10)
			}
			if plan.Chance(150) {
				f.HalfCloseAt = 1 + plan.Draw(8)
			}
		}
	}
	r.net.Desc = fmt.Sprintf("cap=%d faultFree=%v A=%+v B=%+v", r.net.Cap, r.net.FaultFree, r.net.A, r.net.B)
	// tasks
	for ep := 0; ep < 2; ep++ {
		nt := plan.Draw(3)
		if ep == 0 && nt == 0 {
			nt = 1
		}
		for t := 0; t < nt; t++ {
			tp := taskPlan{Ep: ep}
			n := 1 + plan.Draw(maxOps)
			for k := 0; k < n; k++ {
				var o opPlan
				switch plan.Biased(6, 600) {
				case 0:
					o.Kind = "call"
				case 1:
					o.Kind = "notify"
				case 2:
					o.Kind = "close"
				case 3:
					o.Kind = "wait"
				case 4:
					o.Kind = "yield"
					o.N = 1 + plan.Draw(20)
					if ep == 1 && plan.Chance(250) {
						o.Kind = "shutdown" // the server stops accepting while clients may still be dialling
					}
				case 5:
					o.Kind = "call"
					if plan.Chance(120) {
						// a pipelined burst: two slow calls, a backlog behind the first, late arrivals behind the second
						o.Kind = "burst"
						o.N = 3 + plan.Draw(5)
						o.CancelCtx = 1 + plan.Draw(4) // (reused as the number of late arrivals)
					}
				}
				if o.Kind == "call" || o.Kind == "notify" {
					o.Method = methods[plan.Draw(len(methods))]
					if o.Kind == "notify" && (o.Method == "async" || o.Method == "peek" || o.Method == "reenter" || o.Method == "pasync" || o.Method == "asyncin") {
						o.Method = "echo" // handlers must not answer notifications asynchronously / with results
					}
				}
				if o.Kind == "call" {
					o.Awaiters = 1 + plan.Biased(2, 750)
					if plan.Chance(150) {
						o.CancelCtx = 1 + plan.Draw(30)
					}
					o.CancelMsg = plan.Chance(120)
					o.ReAwait = plan.Chance(300)
				}
				if (o.Kind == "call" || o.Kind == "notify") && plan.Chance(120) {
					o.CallCtx = 1 + plan.Draw(12)
				}
				if o.Kind == "notify" && plan.Chance(350) {
					o.ReAwait = true
				}
				if o.Kind == "wait" && k != n-1 {
					o.Kind = "yield"
					o.N = 3
				}
				if o.Kind == "close" && plan.Chance(400) {
					// a notification still being written when Close is called
					tp.Ops = append(tp.Ops, opPlan{Kind: "notify", Method: "echo", ReAwait: true})
				}
				tp.Ops = append(tp.Ops, o)
				if o.Kind == "close" || o.Kind == "wait" {
					break
				}
			}
			r.tasks = append(r.tasks, tp)
		}
	}
	if plan.Chance(250) {
		r.second = 1 + plan.Draw(3)
		if plan.Chance(400) {
			r.earlyShutdown = 1 + plan.Draw(3+r.second*4+6)
		}
	}
	r.viaFakenet = plan.Chance(200)
	if plan.Chance(150) {
		r.eagerBind = 1 + plan.Draw(2)
	}
	if plan.Chance(200) {
		// the idle-timeout listener of serve.go in front of the server: its timer is
		// a simulated one, so the timeout may expire at any scheduling step
		r.idle = []int{1, 50, 60000}[plan.Draw(3)]
		r.strat.TimerP = []int{0, 5, 30, 150}[plan.Draw(4)]
		r.lateDials = plan.Draw(3)
	}
	if plan.Chance(80) || (r.idle > 0 && plan.Chance(300)) {
		r.acceptErr = 1 + plan.Draw(60)
	}
	if plan.Chance(25) {
		// scale: a flood of concurrent calls in both directions, all answered from
		// the peers' read loops, over whatever transport the run drew
		r.flood = 70 + plan.Draw(60)
		r.second, r.idle, r.lateDials, r.acceptErr, r.strat.TimerP = 0, 0, 0, 0, 0
	}
	if v, ok := job.Knobs["flood"]; ok {
		r.flood = v
	}
	if v, ok := job.Knobs["idle"]; ok {
		r.idle = v
		if v > 0 && r.strat.TimerP == 0 {
			r.strat.TimerP = 60
		}
	}
	// raw-peer configuration: only A is a real connection
	r.raw = plan.Chance(200)
	if v, ok := job.Knobs["raw"]; ok {
		r.raw = v == 1
	}
	if r.raw {
		r.second = 0
		r.idle, r.lateDials, r.strat.TimerP, r.acceptErr, r.flood = 0, 0, 0, 0, 0
		var keep []taskPlan
		for _, t := range r.tasks {
			if t.Ep == 0 {
				keep = append(keep, t)
			}
		}
		r.tasks = keep
		r.net.B = simnet.Faults{}
		r.net.A = simnet.Faults{ShortReads: r.net.A.ShortReads, ShortWrite: r.net.A.ShortWrite}
		for i, n := 0, plan.Draw(7); i < n; i++ {
			r.rawScript = append(r.rawScript, plan.Draw(8))
		}
		r.net.Desc = fmt.Sprintf("RAW PEER script=%v cap=%d A=%+v", r.rawScript, r.net.Cap, r.net.A)
	}
	if r.viaFakenet && !r.raw {
		r.net.Desc += " + transport wrapped in x/fakenet over streams whose Read ignores Close"
	}
	if r.eagerBind > 0 {
		r.net.Desc += fmt.Sprintf(" + A's Binder uses the connection from spawned goroutines during set-up (%d)", r.eagerBind)
	}
	if r.idle > 0 {
		r.net.Desc += fmt.Sprintf(" + server behind NewIdleListener(%dms), early-expiry rate %d/1000, %d late clients", r.idle, r.strat.TimerP, r.lateDials)
	}
	if r.flood > 0 {
		r.net.Desc += fmt.Sprintf(" + flood: %d concurrent callers on each side calling peek", r.flood)
	}
	if r.acceptErr > 0 {
		r.net.Desc += fmt.Sprintf(" + Accept fails once with an ordinary error after %d yields", r.acceptErr)
	}
	if r.second > 0 {
		r.net.Desc += fmt.Sprintf(" + second client making %d calls on its own connection to the same server (server shut down after %d yields)", r.second, r.earlyShutdown)
	}
	r.work = append(r.work, r.net.Desc)
	h := uint64(14695981039346656037)
	for _, c := range []byte(r.net.Desc) {
		h = (h ^ uint64(c)) * 1099511628211
	}
	for i, t := range r.tasks {
		d := fmt.Sprintf("task%d@%s: %s", i, []string{"A", "B"}[t.Ep], fmtOps(t.Ops))
		r.work = append(r.work, d)
		for _, c := range []byte(d) {
			h = (h ^ uint64(c)) * 1099511628211
		}
	}
	r.whash = h
	return r
}

func fmtOps(ops []opPlan) string {
	var sb strings.Builder
	for _, o := range ops {
		switch o.Kind {
		case "call":
			fmt.Fprintf(&sb, "call(%s", o.Method)
			if o.Awaiters > 1 {
				sb.WriteString(",2 awaiters")
			}
			if o.CancelCtx > 0 {
				fmt.Fprintf(&sb, ",ctx cancelled after %d", o.CancelCtx)
			}
			if o.CancelMsg {
				sb.WriteString(",cancel msg")
			}
			if o.ReAwait {
				sb.WriteString(",re-await")
			}
			if o.CallCtx > 0 {
				fmt.Fprintf(&sb, ",Call's own ctx cancelled after %d", o.CallCtx-1)
			}
			sb.WriteString(") ")
		case "notify":
			fmt.Fprintf(&sb, "notify(%s", o.Method)
			if o.CallCtx > 0 {
				fmt.Fprintf(&sb, ",ctx cancelled after %d", o.CallCtx-1)
			}
			sb.WriteString(") ")
		case "burst":
			fmt.Fprintf(&sb, "burst(slow,slow,%d echo,unblock,%d echo,unblock) ", o.N, o.CancelCtx)
		case "yield":
			fmt.Fprintf(&sb, "yield%d ", o.N)
		default:
			sb.WriteString(o.Kind + " ")
		}
	}
	return sb.String()
}

func (r *c39run) Strategy() simrt.Strategy { return r.strat }
func (r *c39run) Workload() interface{}    { return r.work }
func (r *c39run) WorkHash() uint64         { return r.whash }
func (r *c39run) Extra() map[string]int    { return r.extra }

// --- transport listener -------------------------------------------------------

type listener struct {
	r       *c39run
	pending []*simnet.End
	fakeB   []net.Conn
	closed  bool
	failNow bool // the pending or next Accept returns an ordinary error
	dead    bool // an Accept failed: the server has stopped accepting although the listener is not closed
	w       simrt.WaitList
}

func (l *listener) Accept(ctx context.Context) (io.ReadWriteCloser, error) {
	s := simrt.Active()
	simrt.Yield("listener.Accept")
	for {
		if l.failNow && !l.closed {
			// an ordinary failure of accept(2): the listener stays open, but a Server
			// gives up accepting; later dials are refused in this model (in reality
			// they would sit in the backlog of a listener nobody accepts from)
			l.failNow, l.dead = false, true
			s.Fault("accept-error")
			return nil, errors.New("simnet: accept: too many open files")
		}
		if len(l.pending) > 0 {
			e := l.pending[0]
			l.pending = l.pending[1:]
			for i, ep := range l.r.eps {
				if ep.end == e {
					l.r.bindNext = i
				}
			}
			if len(l.fakeB) > 0 {
				c := l.fakeB[0]
				l.fakeB = l.fakeB[1:]
				return c, nil
			}
			return e, nil
		}
		if l.closed {
			return nil, errors.New("simnet: listener closed")
		}
		l.w.Wait(s, "listener.Accept")
	}
}

func (l *listener) Close() error {
	simrt.Yield("listener.Close")
	l.closed = true
	l.w.WakeAll(simrt.Active())
	return nil
}

// dropBacklog resets connections that were dialled but never accepted once the
// server has stopped accepting for good (what closing a listening socket does
// to its accept queue; the repository's own pipe listener has no backlog at
// all). Without it such a client would talk to nobody forever, which no real
// transport does.
func (l *listener) dropBacklog() {
	for _, e := range l.pending {
		e.Close()
		l.r.sim.Probe("backlog-connection-reset")
	}
	l.pending, l.fakeB = nil, nil
}

func (l *listener) Dialer() jsonrpc2.Dialer { return clientDialer{l, 0} }

// clientDialer dials for one particular client: the pipe it creates belongs to
// the endpoint records pair (idx, idx+1). (A shared "next index" field was a
// harness race: two clients dialling at the same time swapped their records.)
type clientDialer struct {
	l   *listener
	idx int
}

func (d clientDialer) Dial(ctx context.Context) (io.ReadWriteCloser, error) {
	return d.l.dial(ctx, d.idx)
}

func (l *listener) dial(ctx context.Context, i int) (io.ReadWriteCloser, error) {
	simrt.Yield("listener.Dial")
	if l.closed || l.dead {
		return nil, errors.New("simnet: connection refused (listener closed)")
	}
	a, b := simnet.Pipe(l.r.eps[i].name, l.r.eps[i+1].name, l.r.net.Cap)
	if i == 0 {
		a.F, b.F = l.r.net.A, l.r.net.B
	}
	l.r.eps[i].end, l.r.eps[i+1].end = a, b
	if l.r.viaFakenet {
		a.StdinLike, b.StdinLike = true, true
		l.fakeB = append(l.fakeB, fakenet.NewConn(b.Name, rdOnly{b}, wrOnly{b}))
		l.pending = append(l.pending, b)
		l.w.WakeAll(simrt.Active())
		return fakenet.NewConn(a.Name, rdOnly{a}, wrOnly{a}), nil
	}
	l.pending = append(l.pending, b)
	l.w.WakeAll(simrt.Active())
	return a, nil
}

// rdOnly and wrOnly present one pipe end as the separate input and output
// streams that fakenet.NewConn takes (like os.Stdin and os.Stdout).
type rdOnly struct{ e *simnet.End }

func (r rdOnly) Read(b []byte) (int, error) { return r.e.Read(b) }
func (r rdOnly) Close() error               { return r.e.Close() }

type wrOnly struct{ e *simnet.End }

func (w wrOnly) Write(b []byte) (int, error) { return w.e.Write(b) }
func (w wrOnly) Close() error                { w.e.Close(); return nil }

// --- recording framer -----------------------------------------------------------

type recFramer struct{ ep *endpoint }

type recReader struct {
	ep    *endpoint
	inner jsonrpc2.Reader
}

type recWriter struct {
	ep    *endpoint
	inner jsonrpc2.Writer
}

func (f recFramer) Reader(rw io.Reader) jsonrpc2.Reader {
	return &recReader{f.ep, jsonrpc2.HeaderFramer().Reader(rw)}
}

func (f recFramer) Writer(rw io.Writer) jsonrpc2.Writer {
	return &recWriter{f.ep, jsonrpc2.HeaderFramer().Writer(rw)}
}

func idStr(id jsonrpc2.ID) string { return fmt.Sprintf("%T:%v", id.Raw(), id.Raw()) }

func rec(msg jsonrpc2.Message, seq int64) msgRec {
	switch m := msg.(type) {
	case *jsonrpc2.Request:
		return msgRec{seq: seq, id: idStr(m.ID), meth: m.Method}
	case *jsonrpc2.Response:
		return msgRec{seq: seq, resp: true, id: idStr(m.ID)}
	}
	return msgRec{seq: seq, meth: "?"}
}

func (rd *recReader) Read(ctx context.Context) (jsonrpc2.Message, int64, error) {
	msg, n, err := rd.inner.Read(ctx)
	if err == nil {
		rd.ep.read = append(rd.ep.read, rec(msg, rd.ep.r.tick()))
		if q, ok := msg.(*jsonrpc2.Request); ok {
			var p params
			json.Unmarshal(q.Params, &p)
			rd.ep.arrived = append(rd.ep.arrived, p.Nonce)
		}
	}
	return msg, n, err
}

func (wr *recWriter) Write(ctx context.Context, msg jsonrpc2.Message) (int64, error) {
	ep := wr.ep
	m := rec(msg, ep.r.tick())
	if m.resp {
		// at most one answer per incoming call, and only for calls that arrived
		arrived, answered := 0, 0
		for _, x := range ep.read {
			if !x.resp && x.id == m.id {
				arrived++
			}
		}
		for _, x := range ep.wrote {
			if x.resp && x.id == m.id {
				answered++
			}
		}
		if m.id == "<nil>:<nil>" {
			ep.r.note("response written without an id")
		} else {
			if arrived == 0 {
				ep.r.note("response written for an id that never arrived")
			} else if answered >= arrived {
				ep.r.fail("oracle:duplicate-response", fmt.Sprintf("%s writes response #%d for id %s (%d requests with that id arrived)", ep.name, answered+1, m.id, arrived), "incoming call answered more than once")
			}
		}
	}
	ep.wrote = append(ep.wrote, m)
	return wr.inner.Write(ctx, msg)
}

// --- handlers -----------------------------------------------------------------------

func (ep *endpoint) Bind(ctx context.Context, c *jsonrpc2.Connection) jsonrpc2.ConnectionOptions {
	ep.conn = c
	if ep.idx == 0 && ep.r.eagerBind > 0 {
		// A Binder that starts using the connection from goroutines it spawns
		// (an initialisation call, a watchdog that closes the connection): they
		// race with the rest of the connection set-up.
		r := ep.r
		r.tasksAll++
		simrt.Go("A.eager-call", func() {
			r.doCall(ep, "A.eager-call", opPlan{Kind: "call", Method: "echo", Awaiters: 1})
			r.tasksDone++
		})
		if r.eagerBind > 1 {
			r.tasksAll++
			simrt.Go("A.eager-close", func() {
				r.doClose(ep)
				r.tasksDone++
			})
		}
		r.sim.Probe("binder-uses-connection-during-setup")
	}
	return jsonrpc2.ConnectionOptions{
		Framer:    recFramer{ep},
		Preempter: jsonrpc2.PreempterFunc(ep.preempt),
		Handler:   jsonrpc2.HandlerFunc(ep.handle),
		OnInternalError: func(err error) {
			// The library reports a broken internal invariant (the harness uses the
			// API legally). Not by itself a violation of the statement: whatever it
			// leads to (an Await or Close that never returns, a second answer) is.
			ep.ierrs = append(ep.ierrs, err.Error())
			ep.r.note("OnInternalError: " + firstWords(err.Error(), 4))
		},
	}
}

// unblockCh returns the channel a slow handler for nonce waits on.
func (ep *endpoint) unblockCh(nonce int64) chan struct{} {
	if ep.unblock == nil {
		ep.unblock = map[int64]chan struct{}{}
		ep.unblocked = map[int64]bool{}
	}
	ch, ok := ep.unblock[nonce]
	if !ok {
		ch = make(chan struct{})
		ep.unblock[nonce] = ch
	}
	return ch
}

func firstWords(s string, n int) string {
	f := strings.Fields(s)
	if len(f) > n {
		f = f[:n]
	}
	return strings.Join(f, " ")
}

func (ep *endpoint) preempt(ctx context.Context, req *jsonrpc2.Request) (interface{}, error) {
	var p params
	json.Unmarshal(req.Params, &p)
	switch req.Method {
	case "unblock": // release one particular slow handler
		ch := ep.unblockCh(p.Nonce)
		if !ep.unblocked[p.Nonce] {
			ep.unblocked[p.Nonce] = true
			simrt.Close("preempt:unblock", ch)
		}
		return nil, nil
	case "cancel":
		ep.conn.Cancel(jsonrpc2.Int64ID(p.ID))
		ep.r.sim.Probe("cancel-notification-handled")
		return nil, nil
	case "pasync": // answered asynchronously, but accepted by the Preempter on the read loop
		if !req.IsCall() {
			return nil, nil
		}
		id := req.ID
		key := idStr(id)
		ep.asyncOpen[key] = true
		delay := int(p.Nonce % 5)
		r := ep.r
		simrt.Go(ep.name+".presponder", func() {
			for i := 0; i < delay; i++ {
				simrt.Yield("presponder")
			}
			delete(ep.asyncOpen, key)
			ep.conn.Respond(id, expected("pasync", p.Nonce), nil)
			r.sim.Probe("preempted-async-responded")
		})
		return nil, jsonrpc2.ErrAsyncResponse
	case "peek":
		if !req.IsCall() {
			return nil, nil
		}
		ep.r.sim.Probe("answered-from-read-loop")
		return expected("peek", p.Nonce), nil
	}
	return nil, jsonrpc2.ErrNotHandled
}

func (ep *endpoint) handle(ctx context.Context, req *jsonrpc2.Request) (interface{}, error) {
	r := ep.r
	ep.handling++
	defer func() { ep.handling-- }()
	// (That handlers run one at a time and in arrival order is documented on the
	// Handler interface but is not part of the statement of C39, so neither is
	// judged here.)
	if ep.closeRet {
		r.note("Handle invoked after Close returned")
	}
	var p params
	json.Unmarshal(req.Params, &p)
	simrt.Yield("handler:" + req.Method)
	if !req.IsCall() {
		if req.Method == "fail" {
			return nil, errors.New("notification handler failed on purpose")
		}
		return nil, nil
	}
	switch req.Method {
	case "echo":
		return expected("echo", p.Nonce), nil
	case "slow":
		r.sim.Probe("slow-handler-blocked")
		simrt.WaitAny("handler:slow", ctx.Done(), r.release, ep.unblockCh(p.Nonce))
		if err := ctx.Err(); err != nil {
			r.sim.Probe("slow-handler-cancelled")
			return nil, err
		}
		return expected("slow", p.Nonce), nil
	case "async":
		id := req.ID
		key := idStr(id)
		ep.asyncOpen[key] = true
		delay := int(p.Nonce % 7)
		simrt.Go(ep.name+".responder", func() {
			for i := 0; i < delay; i++ {
				simrt.Yield("responder")
			}
			if p.Nonce >= 900000 {
				// requests of the raw peer stay open until the settle phase releases them
				simrt.WaitAny("responder-wait", r.release)
			}
			// From here on the request is being answered: Close cannot return
			// before Respond's bookkeeping is done (the request is counted as
			// incoming until then), but it may return before this goroutine is
			// scheduled again after Respond's last unlock.
			delete(ep.asyncOpen, key)
			err := ep.conn.Respond(id, expected("async", p.Nonce), nil)
			_ = err
			r.sim.Probe("async-responded")
		})
		return nil, jsonrpc2.ErrAsyncResponse
	case "asyncin":
		// The asynchronous answer is delivered BEFORE the handler returns
		// ErrAsyncResponse ("Respond must be called exactly once for any message
		// for which a handler returns ErrAsyncResponse" does not say afterwards):
		// by the handler itself when the result is already at hand, or by a worker
		// the handler waits for.
		id := req.ID
		if p.Nonce%2 == 0 {
			ep.conn.Respond(id, expected("asyncin", p.Nonce), nil)
			r.sim.Probe("async-responded-inline-by-handler")
			return nil, jsonrpc2.ErrAsyncResponse
		}
		done := make(chan struct{})
		simrt.Go(ep.name+".responder-awaited", func() {
			ep.conn.Respond(id, expected("asyncin", p.Nonce), nil)
			simrt.Close("responder-awaited", done)
		})
		simrt.WaitAny("handler:asyncin", done)
		r.sim.Probe("async-responded-by-awaited-worker")
		return nil, jsonrpc2.ErrAsyncResponse
	case "reenter":
		n2 := p.Nonce + 500000
		// The nested call is one the peer answers from its Preempter: handlers run
		// one at a time per connection, so two handlers that each wait for a
		// queued call on the other side would be an application-level deadlock.
		cr := &callRec{ep: ep, method: "peek", nonce: n2, inner: true}
		r.calls = append(r.calls, cr)
		cr.ac = ep.conn.Call(ctx, "peek", params{Nonce: n2})
		cr.id = idStr(cr.ac.ID())
		aw := &awaitRec{beforeAnyClose: false}
		cr.awaits = append(cr.awaits, aw)
		var v int64
		err := cr.ac.Await(ctx, &v)
		aw.err, aw.val, aw.done = err, v, true
		aw.ctxCancelled = ctx.Err() != nil
		r.checkAwait(cr, aw)
		r.sim.Probe("reentrant-call")
		if err != nil {
			return nil, err
		}
		return v, nil
	case "fail":
		return nil, errors.New("handler failed on purpose")
	}
	return nil, jsonrpc2.ErrNotHandled
}

// --- caller tasks ----------------------------------------------------------------------

func (r *c39run) await(cr *callRec, ctx context.Context, cancelAfter int, background bool) *awaitRec {
	aw := &awaitRec{background: background}
	cr.awaits = append(cr.awaits, aw)
	var cancel context.CancelFunc
	if cancelAfter > 0 {
		ctx, cancel = context.WithCancel(ctx)
		simrt.Go("ctx-canceller", func() {
			for i := 0; i < cancelAfter; i++ {
				simrt.Yield("ctx-canceller")
			}
			aw.ctxCancelled = true
			cancel()
			r.sim.Fault("await-context-cancelled")
		})
	}
	var v int64
	err := cr.ac.Await(ctx, &v)
	aw.err, aw.val, aw.done = err, v, true
	aw.beforeAnyClose = !r.anyClose
	r.checkAwait(cr, aw)
	return aw
}

// checkAwait is the per-Await oracle ("own answer").
func (r *c39run) checkAwait(cr *callRec, aw *awaitRec) {
	if r.raw && !cr.inner {
		r.rawAwaitOK(cr, aw)
		if aw.err == nil {
			r.sim.Probe("await-success")
		} else {
			r.sim.Probe("await-error")
		}
		return
	}
	if aw.err == nil {
		want := expected(cr.method, cr.nonce)
		if aw.val != want {
			r.fail("oracle:wrong-answer", fmt.Sprintf("%s call %s(nonce %d) id %s: Await returned %d, its own answer is %d", cr.ep.name, cr.method, cr.nonce, cr.id, aw.val, want), "Await returned another call's answer")
		}
		if want < 0 {
			r.fail("oracle:wrong-answer", fmt.Sprintf("%s call %s succeeded but its handler fails", cr.ep.name, cr.method), "Await succeeded for a failing method")
		}
		if !cr.ac.IsReady() {
			r.fail("oracle:ready-regressed", "Await returned a result but IsReady is false", "IsReady false after Await returned")
		}
		r.sim.Probe("await-success")
		return
	}
	r.sim.Probe("await-error")
	// which rare paths were reached (coverage probes, not oracles)
	switch msg := aw.err.Error(); {
	case strings.Contains(msg, "client is closing"):
		r.sim.Probe("path:call-rejected-while-shutting-down")
	case strings.Contains(msg, "server is closing"):
		r.sim.Probe("path:request-rejected-by-closing-peer")
	case strings.Contains(msg, "context canceled"):
		r.sim.Probe("path:handler-or-await-cancelled")
	case strings.Contains(msg, "method not found"):
		r.sim.Probe("path:method-not-found")
	case strings.Contains(msg, "EOF"), strings.Contains(msg, "simnet:"):
		r.sim.Probe("path:retired-by-transport-failure")
	case strings.Contains(msg, "on purpose"):
		r.sim.Probe("path:handler-error-relayed")
	default:
		r.sim.Probe("path:other-error")
	}
	if errors.Is(aw.err, context.Canceled) && aw.ctxCancelled {
		return // the caller gave up waiting; the call itself is judged by later awaits
	}
	// Any error satisfies the statement. The narrow strengthening: with no
	// fault configured, no cancellation, no Close invoked anywhere before the
	// Await returned, a call whose handler succeeds must succeed.
	turnedAway := (r.idle > 0 || r.acceptErr > 0) && r.eps[cr.ep.idx^1].conn == nil // the idle listener closed this connection instead of serving it
	if r.net.FaultFree && aw.beforeAnyClose && !turnedAway && !cr.cancelled && !cr.inner && expected(cr.method, cr.nonce) >= 0 && cr.method != "slow" && cr.method != "reenter" {
		r.fail("oracle:spurious-error", fmt.Sprintf("%s call %s(nonce %d) id %s failed with %q although nothing was cancelled, closed or broken", cr.ep.name, cr.method, cr.nonce, cr.id, aw.err), "call failed without fault, cancellation or Close")
	}
}

func (r *c39run) doCall(ep *endpoint, task string, o opPlan) {
	r.nonce++
	cr := &callRec{ep: ep, method: o.Method, nonce: r.nonce}
	r.calls = append(r.calls, cr)
	if o.Method == "badparams" {
		// parameters that cannot be marshalled: the call must fail at once, without touching the wire
		wrote := len(ep.wrote)
		cr.ac = ep.conn.Call(context.Background(), "echo", func() {})
		cr.id = idStr(cr.ac.ID())
		if !cr.ac.IsReady() {
			r.note("unmarshalable call not ready when Call returns")
		}
		for _, m := range ep.wrote[wrote:] { // (other tasks may have written meanwhile)
			if !m.resp && m.id == cr.id {
				r.note("unmarshalable call reached the wire")
			}
		}
		r.sim.Probe("unmarshalable-call")
		aw := r.await(cr, context.Background(), 0, true)
		if aw.err == nil {
			r.fail("oracle:wrong-answer", "a call whose parameters cannot be marshalled succeeded", "unmarshalable call succeeded")
		}
		if err := ep.conn.Notify(context.Background(), "echo", func() {}); err == nil {
			r.note("unmarshalable notification reported success")
		}
		return
	}
	cctx, done := r.opCtx(o.CallCtx)
	if o.CallCtx > 0 {
		cr.cancelled = true // the caller withdrew: any outcome but another call's answer is fine
	}
	cr.ac = ep.conn.Call(cctx, o.Method, params{Nonce: cr.nonce})
	done()
	cr.id = idStr(cr.ac.ID())
	if o.CancelMsg {
		cr.cancelled = true
		raw, _ := cr.ac.ID().Raw().(int64)
		ep.conn.Notify(context.Background(), "cancel", params{ID: raw})
		r.sim.Fault("cancel-notification-sent")
	}
	if o.CancelCtx > 0 {
		cr.cancelled = true // only the Await is abandoned, but be conservative for the no-fault oracle
	}
	if o.Awaiters > 1 {
		simrt.Go(task+".awaiter2", func() { r.await(cr, context.Background(), 0, true) })
	}
	aw := r.await(cr, context.Background(), o.CancelCtx, o.CancelCtx == 0)
	if o.ReAwait || (aw.ctxCancelled && errors.Is(aw.err, context.Canceled)) {
		r.await(cr, context.Background(), 0, true)
	}
}

// opCtx is the context handed to Call or Notify itself: live, already
// cancelled, or cancelled by another task a few steps later (possibly while the
// message is waiting for, or holding, the connection's writer).
func (r *c39run) opCtx(mode int) (context.Context, func()) {
	if mode == 0 {
		return context.Background(), func() {}
	}
	ctx, cancel := context.WithCancel(context.Background())
	r.sim.Fault("call-context-cancelled")
	if mode == 1 {
		cancel()
		return ctx, func() {}
	}
	simrt.Go("call-ctx-canceller", func() {
		for i := 1; i < mode; i++ {
			simrt.Yield("call-ctx-canceller")
		}
		cancel()
	})
	return ctx, cancel
}

// startCall issues a call without awaiting it.
func (r *c39run) startCall(ep *endpoint, method string) *callRec {
	r.nonce++
	cr := &callRec{ep: ep, method: method, nonce: r.nonce}
	r.calls = append(r.calls, cr)
	cr.ac = ep.conn.Call(context.Background(), method, params{Nonce: cr.nonce})
	cr.id = idStr(cr.ac.ID())
	return cr
}

// doBurst pipelines calls: slow1, slow2, a backlog of n echo calls queued behind
// slow1; slow1 is released; m more echo calls arrive while slow2 blocks; slow2
// is released; then everything is awaited.
func (r *c39run) doBurst(ep *endpoint, task string, o opPlan) {
	var all []*callRec
	s1 := r.startCall(ep, "slow")
	s2 := r.startCall(ep, "slow")
	all = append(all, s1, s2)
	for i := 0; i < o.N; i++ {
		all = append(all, r.startCall(ep, "echo"))
	}
	ep.conn.Notify(context.Background(), "unblock", params{Nonce: s1.nonce})
	for i := 0; i < o.CancelCtx; i++ {
		all = append(all, r.startCall(ep, "echo"))
	}
	ep.conn.Notify(context.Background(), "unblock", params{Nonce: s2.nonce})
	r.sim.Probe("pipelined-burst")
	for _, cr := range all {
		r.await(cr, context.Background(), 0, true)
	}
}

func (r *c39run) doClose(ep *endpoint) {
	ep.closeInv = true
	r.anyClose = true
	if ep.idx == 0 {
		r.aClosing.Set()
	}
	ep.conn.Close()
	r.closeReturned(ep, "Close")
}

func (r *c39run) doWait(ep *endpoint) {
	ep.conn.Wait()
	r.closeReturned(ep, "Wait")
}

// closeReturned is the oracle evaluated at the instant Close/Wait returns.
func (r *c39run) closeReturned(ep *endpoint, what string) {
	ep.closeRet = true
	if ep.idx == 0 {
		r.lateGo.Set()
	}
	if ep.handling > 0 {
		r.fail("oracle:close-did-not-wait", fmt.Sprintf("%s.%s returned while a handler is still running", ep.name, what), what+" returned while a handler is running")
	}
	if len(ep.asyncOpen) > 0 {
		r.fail("oracle:close-did-not-wait", fmt.Sprintf("%s.%s returned while %d asynchronous requests are unanswered", ep.name, what, len(ep.asyncOpen)), what+" returned with an unanswered asynchronous request")
	}
	for _, cr := range r.calls {
		if cr.ep == ep && cr.ac != nil && !cr.ac.IsReady() {
			r.note("Close returned with an outgoing call not yet ready")
		}
	}
	r.sim.Probe(what + "-returned")
}

func (r *c39run) Body(s *simrt.Sim) {
	r.sim = s
	r.release = make(chan struct{})
	for i, n := range []string{"A", "B", "C", "D"} {
		if i < 2 || r.second > 0 {
			r.eps = append(r.eps, &endpoint{r: r, idx: i, name: n, asyncOpen: map[string]bool{}})
		}
	}
	for k := 0; k < r.lateDials; k++ {
		i := len(r.eps)
		r.eps = append(r.eps, &endpoint{r: r, idx: i, name: fmt.Sprintf("L%d", k), asyncOpen: map[string]bool{}},
			&endpoint{r: r, idx: i + 1, name: fmt.Sprintf("L%ds", k), asyncOpen: map[string]bool{}})
	}
	if r.raw {
		r.srvWaited = true
		r.startRaw()
	} else {
		r.lis = &listener{r: r}
		var lis jsonrpc2.Listener = r.lis
		if r.idle > 0 {
			lis = jsonrpc2.NewIdleListener(time.Duration(r.idle)*time.Millisecond, r.lis)
		}
		r.server = jsonrpc2.NewServer(context.Background(), lis, serverBinder{r})
		if _, err := jsonrpc2Dial(lis.Dialer(), r.eps[0]); err != nil {
			if r.idle > 0 {
				// the idle timeout expired before the first client dialled
				r.sim.Probe("idle:first-dial-refused")
				return
			}
			r.fail("harness", "Dial failed: "+err.Error(), "Dial")
			return
		}
		// wait until the server side has bound its connection (behind the idle
		// listener the connection may instead have been turned away)
		for r.eps[1].conn == nil && !((r.idle > 0 || r.acceptErr > 0) && (r.lis.closed || r.lis.dead || r.eps[0].end.Broken())) {
			simrt.Yield("wait-for-accept")
		}
		if r.eps[1].conn == nil {
			r.sim.Probe("idle:first-connection-turned-away")
		}
	}
	r.tasksAll += len(r.tasks)
	if r.acceptErr > 0 && r.lis != nil {
		simrt.Go("accept-error-injector", func() {
			for k := 0; k < r.acceptErr; k++ {
				simrt.Yield("accept-error-delay")
			}
			r.lis.failNow = true
			r.lis.w.WakeAll(r.sim)
		})
	}
	if r.lateDials > 0 {
		r.tasksAll++
		simrt.Go("late-clients", r.lateClients)
	}
	if r.flood > 0 && r.eps[1].conn != nil {
		r.sim.Probe("flood")
		for side := 0; side < 2; side++ {
			ep := r.eps[side]
			for k := 0; k < r.flood; k++ {
				name := fmt.Sprintf("%s.flood%d", ep.name, k)
				r.tasksAll++
				simrt.Go(name, func() {
					r.doCall(ep, name, opPlan{Kind: "call", Method: "peek", Awaiters: 1})
					r.tasksDone++
				})
			}
		}
	}
	if r.second > 0 {
		r.tasksAll++
		simrt.Go("C.task", r.secondClient)
		if r.earlyShutdown > 0 {
			r.tasksAll++
			simrt.Go("shutdowner", func() {
				for k := 0; k < r.earlyShutdown; k++ {
					simrt.Yield("shutdowner-delay")
				}
				r.server.Shutdown()
				r.sim.Fault("server-shutdown-mid-run")
				r.tasksDone++
			})
		}
	}
	for i, t := range r.tasks {
		i, t := i, t
		ep := r.eps[t.Ep]
		name := fmt.Sprintf("%s.task%d", ep.name, i)
		simrt.Go(name, func() {
			for _, o := range t.Ops {
				if ep.conn == nil {
					break // (idle configuration) this side's connection never came to be
				}
				switch o.Kind {
				case "call":
					r.doCall(ep, name, o)
				case "notify":
					r.nonce++
					nctx, done := r.opCtx(o.CallCtx)
					if o.ReAwait { // (reused flag) the notification is sent by a goroutine of its own: the task goes on, maybe to Close, while the write is still in progress
						n, method := r.nonce, o.Method // (the scratch module has pre-1.22 loop variables)
						r.tasksAll++
						simrt.Go(name+".notifier", func() {
							ep.conn.Notify(nctx, method, params{Nonce: n})
							done()
							r.tasksDone++
						})
						r.sim.Probe("notify-in-background")
						break
					}
					ep.conn.Notify(nctx, o.Method, params{Nonce: r.nonce})
					done()
				case "close":
					r.doClose(ep)
				case "wait":
					// Wait only returns once somebody closes; the settle phase does.
					r.doWait(ep)
				case "burst":
					r.doBurst(ep, name, o)
				case "shutdown":
					if r.server != nil {
						r.server.Shutdown()
						r.sim.Fault("server-shutdown-mid-run")
					}
				case "yield":
					for k := 0; k < o.N; k++ {
						simrt.Yield("task-yield")
					}
				}
			}
			r.tasksDone++
		})
	}
}

// serverBinder gives every accepted connection its own endpoint record.
type serverBinder struct{ r *c39run }

func (b serverBinder) Bind(ctx context.Context, c *jsonrpc2.Connection) jsonrpc2.ConnectionOptions {
	ep := b.r.eps[b.r.bindNext]
	b.r.accepted++
	return ep.Bind(ctx, c)
}

// secondClient dials the same server later, makes a few calls and closes.
func (r *c39run) secondClient() {
	for k := 0; k < 3+r.second*4; k++ {
		simrt.Yield("second-client-delay")
	}
	c := r.eps[2]
	if _, err := jsonrpc2Dial(clientDialer{r.lis, 2}, c); err != nil {
		// the server was shut down before this client dialled
		r.sim.Probe("second-dial-refused")
		r.tasksDone++
		return
	}
	r.sim.Probe("second-connection")
	for k := 0; k < r.second; k++ {
		r.doCall(c, "C.task", opPlan{Kind: "call", Method: []string{"echo", "peek", "async"}[k%3], Awaiters: 1})
	}
	if r.second%2 == 1 {
		r.doClose(c)
	}
	r.tasksDone++
}

// lateClients (idle configuration): further clients, one after the other, each
// dials after the previous one has closed — so the listener goes idle, re-arms
// its timer and a Dial/Accept may race with the timer's expiry — makes a call
// and closes.
func (r *c39run) lateClients() {
	defer func() { r.tasksDone++ }()
	// the first late client waits until A has closed (the listener is idle then)
	r.lateGo.Wait("late-client-wait")
	for k := 0; k < r.lateDials; k++ {
		i := len(r.eps) - 2*(r.lateDials-k)
		c := r.eps[i]
		if _, err := jsonrpc2Dial(clientDialer{r.lis, i}, c); err != nil {
			r.sim.Probe("idle:late-dial-refused")
			return
		}
		r.sim.Probe("idle:late-connection")
		r.doCall(c, c.name+".task", opPlan{Kind: "call", Method: []string{"echo", "peek", "async"}[k%3], Awaiters: 1})
		r.doClose(c)
	}
}

func jsonrpc2Dial(d jsonrpc2.Dialer, b jsonrpc2.Binder) (*jsonrpc2.Connection, error) {
	return jsonrpc2.Dial(context.Background(), d, b, nil)
}

func (r *c39run) OnStep(s *simrt.Sim) *simrt.Failure {
	if r.failure != nil {
		return r.failure
	}
	// IsReady never goes back to false
	for _, cr := range r.calls {
		if cr.ac == nil {
			continue
		}
		rd := cr.ac.IsReady()
		if cr.sawReady && !rd {
			return &simrt.Failure{Class: "oracle:ready-regressed", Msg: "IsReady went from true to false", Sites: []string{"IsReady regressed"}}
		}
		cr.sawReady = rd
	}
	return nil
}

func (r *c39run) StateSig() uint64 {
	h := uint64(1469598103934665603)
	for _, ep := range r.eps {
		if ep == nil || ep.conn == nil {
			h = (h ^ 0xEE) * 1099511628211
			continue
		}
		st := reflect.ValueOf(ep.conn).Elem().FieldByName("state")
		if !st.IsValid() {
			continue
		}
		b := func(name string) uint64 {
			f := st.FieldByName(name)
			if !f.IsValid() {
				return 7
			}
			switch f.Kind() {
			case reflect.Bool:
				if f.Bool() {
					return 1
				}
				return 0
			case reflect.Interface, reflect.Map, reflect.Slice, reflect.Ptr:
				if f.IsNil() {
					return 0
				}
				if f.Kind() == reflect.Map || f.Kind() == reflect.Slice {
					n := uint64(f.Len())
					if n > 3 {
						n = 3
					}
					return n
				}
				return 1
			case reflect.Int:
				n := uint64(f.Int())
				if n > 3 {
					n = 3
				}
				return n
			}
			return 6
		}
		for _, n := range []string{"connClosing", "reading", "readErr", "writeErr", "closer", "outgoingCalls", "outgoingNotifications", "incoming", "incomingByID", "handlerQueue", "handlerRunning"} {
			h = (h ^ b(n)) * 1099511628211
		}
	}
	return h
}

func (r *c39run) OnQuiesce(s *simrt.Sim, _ int) bool {
	if r.lis != nil && (r.lis.closed || r.lis.dead) && len(r.lis.pending) > 0 {
		// nothing moves any more and the listener is closed: whoever is still in
		// its backlog is never going to be accepted
		simrt.Go("listener-backlog-reset", r.lis.dropBacklog)
		return true
	}
	r.phase++
	switch r.phase {
	case 1:
		// Faults stop: heal stalls, release blocked handlers, close everything.
		r.settle = true
		r.lateGo.Set()
		if r.raw {
			// raw configuration: A starts closing while the peer's requests are
			// still open and the peer is still talking; they are released in the
			// next phase and the peer disconnects in the one after.
			simrt.Go("settle", func() {
				r.eps[0].end.Heal()
				ep := r.eps[0]
				simrt.Go(ep.name+".settle-close", func() { r.doClose(ep) })
			})
			return true
		}
		simrt.Go("settle", func() {
			for _, ep := range r.eps {
				if ep != nil && ep.end != nil {
					ep.end.Heal()
				}
			}
			simrt.Close("settle-release", r.release)
			r.released = true
		})
		return true
	case 2:
		if r.raw {
			simrt.Go("settle-release", func() {
				simrt.Close("settle-release", r.release)
				r.released = true
			})
			return true
		}
		simrt.Go("settle-close", func() {
			for _, ep := range r.eps {
				ep := ep
				if ep.conn != nil {
					simrt.Go(ep.name+".settle-close", func() { r.doClose(ep) })
				}
			}
			r.server.Shutdown()
			simrt.Go("server-wait", func() {
				r.server.Wait()
				r.srvWaited = true
				// the server is done only when every connection it accepted is done
				for _, ep := range r.eps {
					if ep.idx%2 == 1 && ep.conn != nil && !connDone(ep.conn) {
						r.note("Server.Wait returned before an accepted connection finished")
					}
				}
			})
		})
		return true
	case 3:
		if r.raw {
			simrt.Go("settle-peer-disconnects", func() { r.rawp.end.Close() })
			return true
		}
	}
	return false
}

// connDone reports whether an accepted connection has finished: its stream
// has been closed (closer == nil) and its reader has exited. (The done channel
// itself is closed a moment after onDone runs, so Server.Wait may legitimately
// return just before that.) All goroutines are parked when this runs.
func connDone(c *jsonrpc2.Connection) bool {
	st := reflect.ValueOf(c).Elem().FieldByName("state")
	if !st.IsValid() {
		return true // fields renamed: this measure degrades, the other oracles remain
	}
	closer, reading := st.FieldByName("closer"), st.FieldByName("reading")
	if !closer.IsValid() || !reading.IsValid() || reading.Kind() != reflect.Bool {
		return true
	}
	return closer.IsNil() && !reading.Bool()
}

func (r *c39run) Nontrivial(res *simrt.Result) bool {
	done := 0
	for _, cr := range r.calls {
		for _, a := range cr.awaits {
			if a.done {
				done++
			}
		}
	}
	return done >= 1 && res.Switches >= 10
}

func role(b string) string {
	// "g7<x/jsonrpc2/conn.go:270> chan-blocked@x/jsonrpc2/conn.go:523" -> strip goroutine numbers
	f := strings.Fields(b)
	if len(f) == 0 {
		return b
	}
	name := f[0]
	if i := strings.Index(name, "<"); i >= 0 && strings.HasPrefix(name, "g") {
		name = "go" + name[i:]
	}
	name = strings.TrimRight(name, "0123456789")
	return name + " " + strings.Join(f[1:], " ")
}

func (r *c39run) Check(res *simrt.Result) *simrt.Failure {
	if r.failure != nil {
		return r.failure
	}
	// bounded liveness once faults stopped and everything was closed
	var stuck []string
	for _, cr := range r.calls {
		for _, a := range cr.awaits {
			if !a.done {
				stuck = append(stuck, fmt.Sprintf("Await of %s.%s(%s)", cr.ep.name, cr.method, cr.id))
			}
		}
	}
	for _, ep := range r.eps {
		if ep.conn != nil && !ep.closeRet {
			stuck = append(stuck, ep.name+".Close")
		}
	}
	if !r.srvWaited && len(stuck) == 0 {
		// Server.Wait is not part of the statement of C39: counted, not judged
		r.extra["beyond-statement:Server.Wait never returned"]++
	}
	if r.tasksDone != r.tasksAll && len(stuck) == 0 {
		stuck = append(stuck, "caller task")
	}
	if len(stuck) > 0 {
		var sites []string
		seen := map[string]bool{}
		for _, b := range res.Blocked {
			// fingerprint: where goroutines of the package are blocked
			// (goroutines started by the package itself: "g<N><file:line of the go statement>")
			if strings.HasPrefix(b, "g") && strings.Contains(strings.SplitN(b, " ", 2)[0], "<x/jsonrpc2/") {
				k := role(b)
				if !seen[k] {
					seen[k] = true
					sites = append(sites, k)
				}
			}
		}
		sort.Strings(sites)
		return &simrt.Failure{Class: "hang", Msg: fmt.Sprintf("after faults stopped and both ends were closed these never returned: %s\nblocked goroutines:\n  %s", strings.Join(stuck, ", "), strings.Join(res.Blocked, "\n  ")), Sites: sites}
	}
	// exactly once / same outcome for every awaiter
	for _, cr := range r.calls {
		var ref *awaitRec
		for _, a := range cr.awaits {
			if !a.done || (a.ctxCancelled && errors.Is(a.err, context.Canceled)) {
				continue
			}
			if ref == nil {
				ref = a
				continue
			}
			if (ref.err == nil) != (a.err == nil) || ref.val != a.val || (ref.err != nil && ref.err.Error() != a.err.Error()) {
				return &simrt.Failure{Class: "oracle:awaiters-disagree", Msg: fmt.Sprintf("two Awaits of %s.%s(%s) returned (%d,%v) and (%d,%v)", cr.ep.name, cr.method, cr.id, ref.val, ref.err, a.val, a.err), Sites: []string{"awaiters of one call disagree"}}
			}
		}
	}
	return nil
}

func TestZSimC39(t *testing.T) { harn.Main(t, c39{}) }
