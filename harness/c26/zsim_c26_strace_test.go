package gopfmt

// Fidelity pass for C26 (thorough tier): the REAL xgo binary, built from the
// tree, is killed with SIGKILL at every file-system system call of a
// formatting run (strace fault injection: the k-th matching system call
// delivers SIGKILL on entry), for a seeded set of workloads, and the directory
// left behind is judged by the same oracle as the simulated crash points. This
// validates the os interposer of the simulation against the real kernel
// interface; it adds no new oracle.

import (
	"encoding/json"
	"fmt"
	"os"
	"os/exec"
	"path/filepath"
	"sort"
	"strings"
	"sync"
	"syscall"
	"testing"

	"github.com/goplus/xgo/zsim/simrt"
	"github.com/goplus/xgo/zsim/simrt/harn"
)

type straceOut struct {
	Workloads    int      `json:"workloads"`
	KillPoints   int      `json:"kill_points"`
	Rewrites     int      `json:"files_rewritten_in_reference_runs"`
	Violations   []string `json:"violations"`
	Trouble      []string `json:"trouble"`
	Sample       []string `json:"sample"`
}

const straceSet = "openat,creat,write,pwrite64,rename,renameat,renameat2,unlink,unlinkat,fchmod,fchmodat,chmod,link,linkat,symlink,symlinkat,ftruncate,truncate"

func TestZSimC26Strace(t *testing.T) {
	bin := os.Getenv("VERIF_XGO_BIN")
	outPath := os.Getenv("VERIF_STRACE_OUT")
	if bin == "" || outPath == "" {
		t.Skip("VERIF_XGO_BIN / VERIF_STRACE_OUT not set")
	}
	n := 48
	fmt.Sscan(os.Getenv("VERIF_STRACE_WORKLOADS"), &n)
	seed := uint64(1)
	fmt.Sscan(os.Getenv("VERIF_SEED"), &seed)
	base := os.Getenv("VERIF_SCRATCH")
	var out straceOut
	var mu sync.Mutex
	sem := make(chan struct{}, 16)
	var wg sync.WaitGroup
	for w := 0; w < n; w++ {
		w := w
		wg.Add(1)
		sem <- struct{}{}
		go func() {
			defer wg.Done()
			defer func() { <-sem }()
			plan := simrt.NewSource(seed*1000003 + uint64(w)*7919 + 17)
			r := c26{}.NewRun(plan, &harn.Job{Tier: "thorough"}).(*c26run)
			if r.flags != nil && (r.flags[0] == "-t" || r.flags[0] == "-n") {
				r.flags = nil // these do not write
			}
			r.dir = filepath.Join(base, fmt.Sprintf("c26-strace-%d", w))
			defer os.RemoveAll(r.dir)
			defer os.RemoveAll(r.dir + "-shared")
			kills, rewrites, viol, trouble := r.straceWorkload(bin)
			mu.Lock()
			out.Workloads++
			out.KillPoints += kills
			out.Rewrites += rewrites
			out.Violations = append(out.Violations, viol...)
			out.Trouble = append(out.Trouble, trouble...)
			if len(out.Sample) < 3 && kills > 0 {
				out.Sample = append(out.Sample, fmt.Sprintf("%s: %d kill points", strings.Join(r.work[:1], ""), kills))
			}
			mu.Unlock()
		}()
	}
	wg.Wait()
	sort.Strings(out.Violations)
	data, _ := json.MarshalIndent(out, "", " ")
	os.WriteFile(outPath, data, 0644)
}

func (r *c26run) runBin(bin string, strace []string) (killed bool, exit int, err error) {
	args := append([]string{}, strace...)
	name := bin
	if len(strace) > 0 {
		name = "strace"
		args = append(args, bin)
	}
	args = append(args, "fmt")
	args = append(args, r.flags...)
	args = append(args, r.args...)
	cmd := exec.Command(name, args...)
	cmd.Dir = r.dir
	cmd.Env = append(os.Environ(), "HOME="+r.dir, "XGOROOT=")
	cmd.SysProcAttr = &syscall.SysProcAttr{}
	e := cmd.Run()
	if e == nil {
		return false, 0, nil
	}
	if ee, ok := e.(*exec.ExitError); ok {
		ws := ee.Sys().(syscall.WaitStatus)
		if ws.Signaled() {
			return true, -1, nil
		}
		// strace exits with 128+signal or reports the tracee's status
		if ws.ExitStatus() == 128+int(syscall.SIGKILL) {
			return true, -1, nil
		}
		return false, ws.ExitStatus(), nil
	}
	return false, -1, e
}

func (r *c26run) straceWorkload(bin string) (kills, rewrites int, viol, trouble []string) {
	old := syscall.Umask(022)
	syscall.Umask(old)
	if err := r.populate(); err != nil {
		return 0, 0, nil, []string{"populate: " + err.Error()}
	}
	rel := func(p string) string { return filepath.Join(r.dir, p) }
	orig := map[string]fstate{}
	for _, f := range r.files {
		orig[f.Rel] = readState(rel(f.Rel))
	}
	// reference run of the real binary
	if _, _, err := r.runBin(bin, nil); err != nil {
		return 0, 0, nil, []string{"reference run: " + err.Error()}
	}
	ref := map[string]fstate{}
	paths := map[string]bool{}
	for _, f := range r.files {
		paths[f.Rel] = true
		if r.mvgo && strings.HasSuffix(f.Rel, ".go") {
			paths[strings.TrimSuffix(f.Rel, ".go")+".xgo"] = true
		}
	}
	for p := range paths {
		ref[p] = readState(rel(p))
		if o, ok := orig[p]; ok && ref[p].exists && ref[p].data != o.data {
			rewrites++
		}
	}
	if rewrites == 0 {
		return 0, 0, nil, nil
	}
	// strace counts "the k-th call" per thread, and the Go runtime spreads a
	// program over several threads, so one combined counter reaches only the
	// first few calls. Injecting per system call name reaches each kind of
	// call (the k-th renameat, the k-th unlinkat, ...). Whatever point the kill
	// lands on, the directory it leaves behind is a real crash state and is
	// judged.
	for _, sc := range strings.Split(straceSet, ",") {
		for k := 1; k < 80; k++ {
			if err := r.populate(); err != nil {
				return kills, rewrites, viol, append(trouble, "populate: "+err.Error())
			}
			killed, _, err := r.runBin(bin, []string{"-f", "-qq", "-o", "/dev/null", "-e", "trace=" + sc, "-e", fmt.Sprintf("inject=%s:signal=SIGKILL:when=%d", sc, k)})
			if err != nil {
				return kills, rewrites, viol, append(trouble, "strace: "+err.Error())
			}
			if !killed {
				break // no thread makes k calls of this kind
			}
			kills++
			if v := r.judgeDir(orig, ref, fmt.Sprintf("real xgo killed on entry of %s call #%d", sc, k)); v != "" {
				viol = append(viol, v)
				return kills, rewrites, viol, trouble
			}
		}
	}
	return kills, rewrites, viol, trouble
}

// judgeDir applies the crash-point oracle to the directory as it is now.
func (r *c26run) judgeDir(orig, ref map[string]fstate, when string) string {
	rel := func(p string) string { return filepath.Join(r.dir, p) }
	for _, f := range r.files {
		p := f.Rel
		st := readState(rel(p))
		o := orig[p]
		if (st.exists && st.data == o.data) || (ref[p].exists && st.exists && st.data == ref[p].data) {
			continue
		}
		if r.mvgo && strings.HasSuffix(p, ".go") {
			np := strings.TrimSuffix(p, ".go") + ".xgo"
			if ns := readState(rel(np)); ns.exists && ref[np].exists && ns.data == ref[np].data {
				continue
			}
		}
		what := "holds neither its original nor its formatted content"
		if !st.exists {
			what = "does not exist"
		}
		return fmt.Sprintf("%s: %s %s [%s]", when, p, what, r.work[0])
	}
	return ""
}
