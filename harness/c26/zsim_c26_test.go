package gopfmt

// C26 — xgo fmt never loses a file at any crash point and keeps its mode.
// The real command code (flag parsing, walker, gopfmt, writeFileWithBackup,
// report) runs on an interposed file system (package os -> simos in fmt.go).
// Every mutating file-system operation of a run is a crash point: the state
// of every workload file is judged before the first operation, after each
// one and inside each write. Seeded runs additionally fail one operation.

import (
	"fmt"
	"os"
	"path/filepath"
	"sort"
	"strings"
	"syscall"
	"testing"

	"github.com/goplus/xgo/zsim/simrt"
	"github.com/goplus/xgo/zsim/simrt/harn"
	"github.com/goplus/xgo/zsim/simrt/simos"
)

type c26 struct{}

func (c26) Name() string { return "C26" }

type filePlan struct {
	Rel  string
	Src  string
	Mode os.FileMode
	Kind string // unformatted | formatted | invalid
	Link bool   // the path is a symbolic link to the source file, which lives outside the formatted tree
	LinkText string // non-empty: a RELATIVE symbolic link with this text (its target is another workload file)
}

type c26run struct {
	files    []filePlan
	args     []string // after the flags
	flags    []string
	mvgo     bool
	inject   bool
	errKind  int
	umask    int
	work     []string
	whash    uint64
	extra    map[string]int
	dir      string
	failure  *simrt.Failure
	rewrote  int
	strat    int
	cpus     int
	sim      *simrt.Sim
	exitCode int
}

var xgoUnformatted = []string{
	"package main\n\nfunc  main(){\nprintln(\"hello %d\")\n}\n",
	"package main\n\nimport \"fmt\"\n\nfunc main() {\nx:=%d\nfmt.Println( x )\n}\n",
	"func  add(a,b int) int {\nreturn a+b+%d\n}\n\nprintln add(1,2)\n",
	"package main\n\nvar   a  =  %d\n\nfunc main() {\n\tprintln(a)\n}\n",
}

var goUnformatted = []string{
	"package main\nimport \"fmt\"\nfunc main(){fmt.Println( %d)}\n",
	"package main\n\nfunc  f( ) int {\nreturn %d }\n\nfunc main() { println(f()) }\n",
}

var goxUnformatted = []string{
	"var (\n  x int\n)\n\nfunc  Foo() {\nprintln(%d)\n}\n",
	"func  onStart() {\nprintln( \"start %d\" )\n}\n",
}

var formattedXgo = "package main\n\nfunc main() {\n\tprintln(\"ok %d\")\n}\n"
var formattedGo = "package main\n\nfunc main() {\n\tprintln(%d)\n}\n"
var invalidSrc = "package main\n\nfunc {  // %d\n"

func (c26) NewRun(plan *simrt.Source, job *harn.Job) harn.Run {
	r := &c26run{extra: map[string]int{}}
	r.strat = plan.Draw(2)
	r.cpus = []int{1, 2, 4, 16}[plan.Draw(4)] // what the simulated machine reports as GOMAXPROCS / NumCPU
	n := 1 + plan.Draw(5)
	modes := []os.FileMode{0644, 0600, 0664, 0640, 0755, 0444}
	exts := []string{".xgo", ".gop", ".go", ".gox", ".xgo", ".go"}
	sub := plan.Chance(400)
	for i := 0; i < n; i++ {
		ext := exts[plan.Draw(len(exts))]
		name := fmt.Sprintf("f%d%s", i, ext)
		if ext == ".gox" {
			name = fmt.Sprintf("Cls%d%s", i, ext)
		}
		if sub && plan.Chance(400) {
			name = "sub/" + name
		}
		fp := filePlan{Rel: name, Mode: modes[plan.Draw(len(modes))]}
		nonce := 100 + i*17 + plan.Draw(7)
		switch plan.Biased(3, 650) {
		case 0:
			fp.Kind = "unformatted"
			switch ext {
			case ".go":
				fp.Src = fmt.Sprintf(goUnformatted[plan.Draw(len(goUnformatted))], nonce)
			case ".gox":
				fp.Src = fmt.Sprintf(goxUnformatted[plan.Draw(len(goxUnformatted))], nonce)
			default:
				fp.Src = fmt.Sprintf(xgoUnformatted[plan.Draw(len(xgoUnformatted))], nonce)
			}
		case 1:
			fp.Kind = "formatted"
			if ext == ".go" && plan.Chance(500) {
				// stable under every style, --smart included
				fp.Src = fmt.Sprintf("package foo\n\nfunc Add%d(a, b int) int {\n\treturn a + b\n}\n", nonce)
			} else if ext == ".go" {
				fp.Src = fmt.Sprintf(formattedGo, nonce)
			} else if ext == ".gox" {
				fp.Src = fmt.Sprintf("func Foo() {\n\tprintln %d\n}\n", nonce)
			} else {
				fp.Src = fmt.Sprintf(formattedXgo, nonce)
			}
		case 2:
			fp.Kind = "invalid"
			fp.Src = fmt.Sprintf(invalidSrc, nonce)
		}
		fp.Link = plan.Chance(120)
		r.files = append(r.files, fp)
	}
	if plan.Chance(250) {
		// neighbours whose names extend a source's name: another source (f0.go ->
		// f0.gox, f0.gop) and files the command has no business with (editor
		// backups). None of them may be lost or damaged at any crash point.
		base := r.files[plan.Draw(len(r.files))]
		if !base.Link && strings.HasSuffix(base.Rel, ".go") {
			nonce := 500 + plan.Draw(50)
			for _, k := range []int{0, 1, 2, 3, 4} {
				if !plan.Chance(500) {
					continue
				}
				switch k {
				case 4: // the same stem as an .xgo source (a partly migrated package): where -mvgo wants to put its result
					r.files = append(r.files, filePlan{Rel: strings.TrimSuffix(base.Rel, ".go") + ".xgo", Kind: "unformatted", Mode: 0644, Src: fmt.Sprintf(xgoUnformatted[plan.Draw(len(xgoUnformatted))], nonce+1)})
				case 0:
					r.files = append(r.files, filePlan{Rel: base.Rel + "x", Kind: "unformatted", Mode: 0644, Src: fmt.Sprintf(goxUnformatted[plan.Draw(len(goxUnformatted))], nonce)})
				case 1:
					r.files = append(r.files, filePlan{Rel: base.Rel + "p", Kind: "unformatted", Mode: 0640, Src: fmt.Sprintf(xgoUnformatted[plan.Draw(len(xgoUnformatted))], nonce)})
				case 2:
					r.files = append(r.files, filePlan{Rel: base.Rel + "~", Kind: "bystander", Mode: 0644, Src: fmt.Sprintf("editor backup %d\n", nonce)})
				case 3:
					r.files = append(r.files, filePlan{Rel: base.Rel + ".orig", Kind: "bystander", Mode: 0600, Src: fmt.Sprintf("kept by a merge tool %d\n", nonce)})
				}
			}
		}
	}
	if plan.Chance(150) {
		// a relative symbolic link to a sibling, and a file of the same name in the
		// directory the command is started from
		r.files = append(r.files,
			filePlan{Rel: "twin.xgo", Kind: "formatted", Mode: 0600, Src: fmt.Sprintf(formattedXgo, 900+n)},
			filePlan{Rel: "sub/twin.xgo", Kind: "unformatted", Mode: 0644, Src: fmt.Sprintf(xgoUnformatted[0], 800+n)},
			filePlan{Rel: "sub/ltwin.xgo", Kind: "unformatted", Mode: 0644, Link: true, LinkText: "twin.xgo"})
	}
	switch plan.Biased(5, 550) {
	case 0:
	case 1:
		r.flags = []string{"--smart"}
	case 2:
		r.flags = []string{"--smart", "-mvgo"}
		r.mvgo = true
	case 3:
		r.flags = []string{"-t"}
	case 4:
		r.flags = []string{"-n"}
	}
	if r.mvgo && plan.Chance(400) {
		// -mvgo puts its result at <stem>.xgo: sometimes that name is taken
		for fi, f := range r.files {
			if strings.HasSuffix(f.Rel, ".go") && !f.Link {
				if plan.Chance(500) {
					// the .go file is already in XGo style: nothing to rewrite, only to move
					r.files[fi].Kind = "formatted"
					r.files[fi].Src = fmt.Sprintf("package foo\n\nfunc Add%d(a, b int) int {\n\treturn a + b\n}\n", 600+fi)
				}
				np := strings.TrimSuffix(f.Rel, ".go") + ".xgo"
				taken := false
				for _, g := range r.files {
					if g.Rel == np {
						taken = true
					}
				}
				if !taken {
					r.files = append(r.files, filePlan{Rel: np, Kind: "formatted", Mode: 0644, Src: fmt.Sprintf(formattedXgo, 700+len(r.files))})
				}
				break
			}
		}
	}
	switch plan.Draw(5) {
	case 0:
		r.args = []string{"."}
	case 1:
		r.args = []string{"./..."}
	case 2, 3, 4:
		for _, f := range r.files {
			if f.Kind != "bystander" {
				r.args = append(r.args, f.Rel)
			}
		}
		// overlapping arguments: the same file named twice, or a directory and a file inside it
		if k := plan.Draw(6); k == 4 && len(r.args) > 0 {
			r.args = append(r.args, r.args[0])
		} else if k == 5 && len(r.args) > 0 {
			r.args = append([]string{"."}, r.args[len(r.args)-1])
		}
	}
	r.inject = plan.Chance(500)
	r.errKind = plan.Draw(5)
	r.umask = []int{022, 022, 077, 027, 002, 0}[plan.Draw(6)]
	r.work = append(r.work, fmt.Sprintf("xgo fmt %s %s (inject error: %v, umask %03o)", strings.Join(r.flags, " "), strings.Join(r.args, " "), r.inject, r.umask))
	h := uint64(14695981039346656037)
	for _, f := range r.files {
		r.work = append(r.work, fmt.Sprintf("%s mode=%o %s symlink=%v %q", f.Rel, f.Mode, f.Kind, f.Link, f.Src))
	}
	for _, l := range r.work {
		for _, c := range []byte(l) {
			h = (h ^ uint64(c)) * 1099511628211
		}
	}
	r.whash = h
	return r
}

func (r *c26run) Strategy() simrt.Strategy { return simrt.Strategy{Kind: r.strat, StickyP: 700} }

// Body is simulated goroutine 0: the command is sequential today, but the
// package is instrumented, so goroutines, locks and channels an edit adds to it
// are scheduled by the simulator (and a run stays replayable).
func (r *c26run) CPUs() int { return r.cpus }

func (r *c26run) Body(s *simrt.Sim) {
	r.sim = s
	res := r.runSeq(s.Sched(), true)
	for k, n := range res.Faults {
		for i := 0; i < n; i++ {
			s.Fault(k)
		}
	}
	for _, l := range res.Log {
		s.Logf("%s", l)
	}
	s.Mix(res.SchedHash)
}

// OnPanic: a goroutine of the simulated command that unwinds with ExitPanic
// (os.Exit, or the kill injected at a crash point) is the process ending, not a
// failure.
func (r *c26run) OnPanic(v interface{}) bool {
	if e, ok := v.(simos.ExitPanic); ok {
		r.exitCode = e.Code
		return true
	}
	return false
}
func (r *c26run) OnStep(s *simrt.Sim) *simrt.Failure       { return nil }
func (r *c26run) StateSig() uint64                         { return 0 }
func (r *c26run) OnQuiesce(s *simrt.Sim, n int) bool       { return false }
func (r *c26run) Workload() interface{}                    { return r.work }
func (r *c26run) WorkHash() uint64                         { return r.whash }
func (r *c26run) Extra() map[string]int                    { return r.extra }
func (r *c26run) Nontrivial(res *simrt.Result) bool        { return r.rewrote > 0 }
func (r *c26run) Check(res *simrt.Result) *simrt.Failure   { return r.failure }

type fstate struct {
	exists bool
	data   string
	mode   os.FileMode
}

// readState is what a user sees at the path (symbolic links are followed).
func readState(path string) fstate {
	fi, err := os.Stat(path)
	if err != nil {
		return fstate{}
	}
	b, err := os.ReadFile(path)
	if err != nil {
		return fstate{exists: true, data: "<unreadable: " + err.Error() + ">", mode: fi.Mode().Perm()}
	}
	return fstate{exists: true, data: string(b), mode: fi.Mode().Perm()}
}

func (r *c26run) populate() error {
	os.RemoveAll(r.dir)
	if err := os.MkdirAll(filepath.Join(r.dir, "sub"), 0755); err != nil {
		return err
	}
	if err := os.WriteFile(filepath.Join(r.dir, "go.mod"), []byte("module example.com/c26\n\ngo 1.18\n"), 0644); err != nil {
		return err
	}
	shared := r.dir + "-shared"
	os.RemoveAll(shared)
	for _, f := range r.files {
		p := filepath.Join(r.dir, f.Rel)
		real := p
		if f.LinkText != "" {
			if err := os.Symlink(f.LinkText, p); err != nil {
				return err
			}
			continue
		}
		if f.Link {
			os.MkdirAll(shared, 0755)
			real = filepath.Join(shared, filepath.Base(f.Rel))
			if err := os.Symlink(real, p); err != nil {
				return err
			}
		}
		if err := os.WriteFile(real, []byte(f.Src), 0644); err != nil {
			return err
		}
		if err := os.Chmod(real, f.Mode); err != nil {
			return err
		}
	}
	return nil
}

// invoke runs the command like the xgo driver does and returns its exit code.
func (r *c26run) invoke() (code int, panicked interface{}) {
	testErrCnt, procCnt, walkSubDir, rootDir = 0, 0, false, ""
	args := []string{"-t=false", "-n=false", "-mvgo=false", "-smart=false"}
	args = append(args, r.flags...)
	args = append(args, r.args...)
	r.exitCode = 0
	simos.Revive() // a new process
	defer func() {
		if p := recover(); p != nil {
			if e, ok := p.(simos.ExitPanic); ok {
				code = e.Code
			} else {
				panicked = p
			}
		} else if simos.Dead() {
			code = r.exitCode // another goroutine of the command ended the process
		}
		// the process is over only when every goroutine it started has unwound
		// (after an exit or a kill their file-system calls have no effect any more)
		for r.sim != nil && r.sim.OthersAlive() && !r.sim.Failed() {
			simrt.Yield("wait-for-the-command's-goroutines")
		}
	}()
	Cmd.Run(Cmd, args)
	return 0, nil
}

var errnos = []syscall.Errno{syscall.ENOSPC, syscall.EIO, syscall.EACCES, syscall.EMFILE, syscall.EPERM}

func (r *c26run) runSeq(sched *simrt.Source, keepLog bool) *simrt.Result {
	res := &simrt.Result{States: map[uint64]struct{}{}, Probes: map[string]int{}, Faults: map[string]int{}}
	logf := func(format string, a ...interface{}) {
		if keepLog {
			res.Log = append(res.Log, fmt.Sprintf(format, a...))
		}
	}
	base := os.Getenv("VERIF_SCRATCH")
	if base == "" {
		base = os.TempDir()
	}
	r.dir = filepath.Join(base, fmt.Sprintf("c26-%d", os.Getpid()))
	defer os.RemoveAll(r.dir)
	defer os.RemoveAll(r.dir + "-shared")
	cwd, _ := os.Getwd()
	defer os.Chdir(cwd)
	// the process umask is part of the environment the command runs in
	defer syscall.Umask(syscall.Umask(r.umask))
	fail := func(class, msg, site string) {
		if r.failure == nil {
			r.failure = &simrt.Failure{Class: class, Msg: msg, Sites: []string{site}}
			res.Failure = r.failure
		}
	}
	// --- reference run: what does an undisturbed run produce? ------------------
	if err := r.populate(); err != nil {
		fail("harness", err.Error(), "populate")
		return res
	}
	os.Chdir(r.dir)
	orig := map[string]fstate{}
	for _, f := range r.files {
		orig[f.Rel] = readState(f.Rel)
	}
	refOps, refReads := 0, 0
	simos.Install(&simos.Hooks{After: func(op *simos.Op) { refOps++ }, Read: func(kind, path string) error { refReads++; return nil }})
	refCode, refPanic := r.invoke()
	simos.Install(nil)
	if refPanic != nil {
		fail("panic", fmt.Sprintf("xgo fmt panicked: %v", refPanic), "panic in xgo fmt")
		return res
	}
	ref := map[string]fstate{}
	paths := map[string]bool{}
	for _, f := range r.files {
		paths[f.Rel] = true
		if r.mvgo && strings.HasSuffix(f.Rel, ".go") {
			paths[strings.TrimSuffix(f.Rel, ".go")+".xgo"] = true
		}
	}
	var tracked []string
	for p := range paths {
		tracked = append(tracked, p)
	}
	sort.Strings(tracked)
	for _, p := range tracked {
		ref[p] = readState(p)
		if o, ok := orig[p]; ok && ref[p].exists && ref[p].data != o.data {
			r.rewrote++
		}
	}
	logf("reference run: exit %d, %d mutating operations, %d files rewritten", refCode, refOps, r.rewrote)
	// --- what is each file's OWN formatted content? The same command, run with
	// only that file present (plus whatever a symbolic link needs). The whole
	// directory's end state is not a yardstick for a single file: a run that
	// puts one file's content at another file's path ends in a state, too.
	alone := map[string]fstate{}
	for _, f := range r.files {
		if f.Kind == "bystander" {
			alone[f.Rel] = orig[f.Rel]
			continue
		}
		os.Chdir(cwd)
		if err := r.populate(); err != nil {
			fail("harness", err.Error(), "populate")
			return res
		}
		os.Chdir(r.dir)
		for _, g := range r.files {
			if g.Rel != f.Rel && !(f.LinkText != "" && filepath.Join(filepath.Dir(f.Rel), f.LinkText) == g.Rel) {
				os.Remove(g.Rel)
			}
		}
		saved := r.args
		if len(saved) > 0 && saved[0] != "." && saved[0] != "./..." {
			r.args = []string{f.Rel}
		}
		_, p1 := r.invoke()
		r.args = saved
		if p1 != nil {
			fail("panic", fmt.Sprintf("xgo fmt panicked: %v", p1), "panic in xgo fmt")
			return res
		}
		alone[f.Rel] = readState(f.Rel)
		if r.mvgo && strings.HasSuffix(f.Rel, ".go") {
			np := strings.TrimSuffix(f.Rel, ".go") + ".xgo"
			if _, had := orig[np]; !had {
				alone[np] = readState(np)
			}
		}
	}
	// --- judged run -------------------------------------------------------------------
	os.Chdir(cwd)
	if err := r.populate(); err != nil {
		fail("harness", err.Error(), "populate")
		return res
	}
	os.Chdir(r.dir)
	hash := uint64(1469598103934665603)
	mix := func(s string) {
		for i := 0; i < len(s); i++ {
			hash = (hash ^ uint64(s[i])) * 1099511628211
		}
	}
	norm := func(p string) string {
		p = filepath.Clean(p)
		// absolute paths contain the scratch directory and the process id
		if strings.HasPrefix(p, r.dir+"-shared") {
			p = "<shared>" + strings.TrimPrefix(p, r.dir+"-shared")
		} else if strings.HasPrefix(p, r.dir+"/") {
			p = strings.TrimPrefix(p, r.dir+"/")
		}
		p = filepath.ToSlash(strings.TrimPrefix(p, "./"))
		if paths[p] {
			return p
		}
		if strings.Contains(filepath.Base(p), "*") {
			return filepath.Dir(p) + "/<temp>"
		}
		// a temp file is named after a workload file: same directory first, in a
		// fixed order (two workload files may share a base name)
		elsewhere := false
		for _, t := range tracked {
			if strings.HasPrefix(filepath.Base(p), filepath.Base(t)) {
				if filepath.Dir(p) == filepath.Dir(t) {
					return filepath.Dir(p) + "/<temp>"
				}
				elsewhere = true
			}
		}
		if elsewhere {
			return "<elsewhere>/<temp>"
		}
		return p
	}
	crashPoints := 0
	judge := func(when string) {
		crashPoints++
		for _, f := range r.files {
			p := f.Rel
			st := readState(p)
			o := orig[p]
			okOrig := st.exists && st.data == o.data
			okRef := alone[p].exists && st.exists && st.data == alone[p].data
			if okOrig || okRef {
				continue
			}
			if r.mvgo && strings.HasSuffix(p, ".go") {
				np := strings.TrimSuffix(p, ".go") + ".xgo"
				if ns := readState(np); ns.exists && alone[np].exists && ns.data == alone[np].data {
					continue
				}
			}
			what := "holds neither its complete original nor its complete formatted content"
			site := "file content torn or lost"
			if !st.exists {
				what = "does not exist"
				site = "file missing"
			}
			fail("crash-consistency", fmt.Sprintf("killed %s: %s %s (original %d bytes, its own formatted content %d bytes, found %d bytes)", when, p, what, len(o.data), len(alone[p].data), len(st.data)), site+" "+lastOpKind(when))
			return
		}
	}
	injectAt, injectReadAt, nread := 0, 0, 0
	if r.inject && refOps > 0 {
		injectAt = 1 + sched.Draw(refOps)
		if refReads > 0 && sched.Chance(300) {
			// instead: a READ-side call fails (the source cannot be read, the stat for
			// its mode fails, a directory cannot be listed)
			injectAt, injectReadAt = 0, 1+sched.Draw(refReads)
		}
	}
	var lastDesc = "before the first operation"
	judge(lastDesc)
	simos.Install(&simos.Hooks{
		Read: func(kind, path string) error {
			nread++
			if injectReadAt > 0 && nread == injectReadAt {
				e := errnos[(r.errKind+1)%len(errnos)]
				if e == syscall.ENOSPC {
					e = syscall.EIO
				}
				res.Faults["read-error:"+kind+":"+e.Error()]++
				logf("read %d %s %s: injected %v", nread, kind, norm(path), e)
				mix("inject-read")
				return e
			}
			return nil
		},
		Before: func(op *simos.Op) (error, int) {
			if injectAt > 0 && op.Seq == injectAt && op.Kind != "close" {
				e := errnos[r.errKind%len(errnos)]
				res.Faults["error:"+e.Error()]++
				partial := 0
				if op.Kind == "write" {
					partial = sched.Draw(op.N + 1)
				}
				logf("op %d %s %s: injected %v (partial %d)", op.Seq, op.Kind, norm(op.Path), e, partial)
				mix("inject")
				return e, partial
			}
			return nil, 0
		},
		After: func(op *simos.Op) {
			desc := fmt.Sprintf("after %s(%s", op.Kind, norm(op.Path))
			if op.Path2 != "" {
				desc += ", " + norm(op.Path2)
			}
			desc += ")"
			if op.Kind == "write-part" {
				desc = fmt.Sprintf("inside write(%s) after %d bytes", norm(op.Path), op.N)
				res.Faults["crash-inside-write"]++
			}
			mix(desc)
			logf("op %d: %s", op.Seq, desc)
			res.Steps++
			if r.failure == nil {
				judge(desc)
			}
		},
		Split: func(n int) int {
			if sched.Chance(700) {
				return 1 + sched.Draw(n-1)
			}
			return 0
		},
	})
	code, pan := r.invoke()
	simos.Install(nil)
	if pan != nil {
		fail("panic", fmt.Sprintf("xgo fmt panicked: %v", pan), "panic in xgo fmt")
	}
	res.Faults["crash-points-evaluated"] += crashPoints
	r.extra["crash-points"] += crashPoints
	mix(fmt.Sprintf("exit%d", code))
	logf("exit code %d", code)
	// --- after a successful run: permission bits ---------------------------------
	if r.failure == nil && code == 0 && !r.mvgo && injectAt == 0 && injectReadAt == 0 {
		for _, f := range r.files {
			st := readState(f.Rel)
			if st.exists && st.data != orig[f.Rel].data && st.mode != orig[f.Rel].mode {
				fail("mode-changed", fmt.Sprintf("%s was rewritten and its permission bits changed from %o to %o", f.Rel, orig[f.Rel].mode, st.mode), "permission bits changed by rewrite")
				break
			}
		}
		if code != refCode {
			fail("harness", fmt.Sprintf("judged run exit %d differs from reference run exit %d", code, refCode), "exit codes differ")
		}
	}
	// --- crash, (edit,) run again --------------------------------------------------
	// The process really dies at one crash point, leaving behind whatever it had
	// created; then — as a user would — the command is simply run again, in half
	// of the cases after one source was edited meanwhile. The second run must
	// leave every file with the content it had before that run or with its own
	// formatted content: nothing a dead run left behind may leak into a file.
	plainFlags := len(r.flags) == 0 || (len(r.flags) == 1 && r.flags[0] == "--smart")
	if r.failure == nil && plainFlags && refOps > 0 && sched.Chance(600) {
		os.Chdir(cwd)
		if err := r.populate(); err != nil {
			fail("harness", err.Error(), "populate")
			return res
		}
		os.Chdir(r.dir)
		k := 1 + sched.Draw(refOps)
		simos.Install(&simos.Hooks{After: func(op *simos.Op) {
			if op.Seq == k {
				simos.KillProcess()
				panic(simos.ExitPanic{Code: 137}) // SIGKILL right after this operation
			}
		}})
		r.invoke()
		simos.Install(nil)
		res.Faults["process-killed-then-rerun"]++
		mix(fmt.Sprintf("kill%d", k))
		// an edit between the runs: one source takes over the content of another
		// source of the same kind (whose own formatted form is known)
		expect := map[string][2]string{} // file -> {content before run 2, its formatted form}
		for _, f := range r.files {
			if f.Kind == "bystander" || f.LinkText != "" {
				continue
			}
			st := readState(f.Rel)
			if !st.exists {
				continue // (cannot happen on a correct tree: judged above)
			}
			fm := st.data
			if st.data == orig[f.Rel].data && alone[f.Rel].exists {
				fm = alone[f.Rel].data
			}
			expect[f.Rel] = [2]string{st.data, fm}
		}
		if sched.Chance(700) {
			for _, x := range r.files {
				if x.Kind == "bystander" || x.Link || x.LinkText != "" {
					continue
				}
				done := false
				for _, y := range r.files {
					// y must be a source this very invocation rewrites when it meets it in
					// this directory: then the same content under x's name is rewritten
					// the same way
					if y.Rel == x.Rel || y.Kind == "bystander" || y.Link || y.LinkText != "" || filepath.Ext(y.Rel) != filepath.Ext(x.Rel) ||
						filepath.Dir(y.Rel) != filepath.Dir(x.Rel) || !alone[y.Rel].exists || alone[y.Rel].data == orig[y.Rel].data || strings.Contains(x.Rel, "twin") {
						continue
					}
					if fi, err := os.Lstat(x.Rel); err == nil && fi.Mode().IsRegular() {
						os.Chmod(x.Rel, 0644)
						os.WriteFile(x.Rel, []byte(orig[y.Rel].data), 0644)
						os.Chmod(x.Rel, x.Mode)
						expect[x.Rel] = [2]string{orig[y.Rel].data, alone[y.Rel].data}
						res.Faults["source-edited-between-runs"]++
						mix("edit " + x.Rel + "<-" + y.Rel)
						done = true
					}
					break
				}
				if done {
					break
				}
			}
		}
		code2, pan2 := r.invoke()
		if pan2 != nil {
			fail("panic", fmt.Sprintf("xgo fmt panicked on the run after a crash: %v", pan2), "panic in xgo fmt")
		}
		mix(fmt.Sprintf("rerun-exit%d", code2))
		for _, f := range r.files {
			e, ok := expect[f.Rel]
			if !ok || r.failure != nil {
				continue
			}
			st := readState(f.Rel)
			if !st.exists || (st.data != e[0] && st.data != e[1]) {
				fail("crash-consistency", fmt.Sprintf("killed after operation %d, then run again (exit %d): %s holds neither the content it had before the second run (%d bytes) nor its own formatted content (%d bytes); found %d bytes", k, code2, f.Rel, len(e[0]), len(e[1]), len(st.data)), "file damaged by the run after a crash")
			}
		}
	}
	res.SchedHash = hash
	res.Switches = crashPoints
	return res
}

func lastOpKind(when string) string {
	// "after rename(a, b)" -> "after rename"; "inside write(...) ..." -> "inside write"
	if i := strings.Index(when, "("); i >= 0 {
		return when[:i]
	}
	return when
}

func TestZSimC26(t *testing.T) {
	if os.Getenv("VERIF_JOB") != "" {
		null, _ := os.OpenFile(os.DevNull, os.O_WRONLY, 0)
		os.Stdout = null
	}
	harn.Main(t, c26{})
}
