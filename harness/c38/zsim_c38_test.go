package jsonrpc2_test

// C38 — JSON-RPC framing round-trips any message stream; malformed streams
// give errors, never panics, and never consume more than the declared length.
// The real HeaderFramer reader/writer and message codec run over simulated
// byte streams: the simulator owns chunking (short reads), the byte offset at
// which the stream ends or fails, short writes, context cancellation and
// byte corruption.

import (
	"bytes"
	"context"
	"encoding/json"
	"errors"
	"fmt"
	"io"
	"reflect"
	"strings"
	"testing"

	"github.com/goplus/xgo/x/jsonrpc2"
	"github.com/goplus/xgo/zsim/simrt"
	"github.com/goplus/xgo/zsim/simrt/harn"
)

type c38 struct{}

func (c38) Name() string { return "C38" }

// mdesc describes one message independently of the package's types.
type mdesc struct {
	Kind    int // 0 call, 1 notification, 2 response with result, 3 response with error, 4 response with result and error
	StrID   bool
	IDInt   int64
	IDStr   string
	Method  string
	Params  string // JSON text, "" = absent
	Result  string
	ErrCode int64
	ErrMsg  string
	Plain   bool // error is a plain Go error (code 0 on the wire)
	Wrapped bool // error wraps a coded error: the code is kept, the outer message is sent
}

func (m mdesc) String() string {
	id := fmt.Sprint(m.IDInt)
	if m.StrID {
		id = fmt.Sprintf("%q", m.IDStr)
	}
	trunc := func(s string) string {
		if len(s) > 40 {
			return fmt.Sprintf("%s…(%d bytes)", s[:40], len(s))
		}
		return s
	}
	switch m.Kind {
	case 0:
		return fmt.Sprintf("call id=%s %q params=%s", id, m.Method, trunc(m.Params))
	case 1:
		return fmt.Sprintf("notify %q params=%s", m.Method, trunc(m.Params))
	case 2:
		return fmt.Sprintf("response id=%s result=%s", id, trunc(m.Result))
	case 3:
		return fmt.Sprintf("response id=%s error=%d %q", id, m.ErrCode, m.ErrMsg)
	}
	return fmt.Sprintf("response id=%s result=%s error=%d %q", id, trunc(m.Result), m.ErrCode, m.ErrMsg)
}

var methodPool = []string{"m", "textDocument/didOpen", "$/cancelRequest", "方法", "a\"b\\c", "with space", "<html>&", "x\ty", "initialize"}
var jsonPool = []string{`{"a":1}`, `[1,2,3]`, `"str"`, `null`, `{"nested":{"x":[true,false,null],"y":1.5e10}}`, `12345678901234567890`,
	`{"k":"é\n"}`, ` { "a" : [ 1 , 2 ] } `, `[]`, `{}`, `0`, `"Content-Length: 5\r\n\r\n{}"`, `{"jsonrpc":"2.0","id":1,"method":"inner"}`, `"<&>"`}
var msgPool = []string{"boom", "", "JSON RPC parse error", "multi\nline", "üñí"}

func bigJSON(n int, seed int) string {
	var sb strings.Builder
	sb.WriteString(`{"blob":"`)
	for i := 0; i < n; i++ {
		sb.WriteByte("abcdefghijklmnopqrstuvwxyz0123456789"[(i*7+seed)%36])
	}
	sb.WriteString(`"}`)
	return sb.String()
}

func genMsg(plan *simrt.Source, big bool, exotic bool) mdesc {
	var m mdesc
	m.Kind = plan.Draw(5)
	m.StrID = plan.Chance(300)
	switch plan.Draw(7) {
	case 5: // beyond what a float64 holds exactly
		m.IDInt = []int64{1<<53 + 1, -(1<<53 + 1), 1<<62 + 1, 1<<63 - 1, -1 << 63, 1<<53 + 2, 1234567890123456789}[plan.Draw(7)]
	case 6:
		m.IDInt = 1<<62 + int64(plan.Draw(1000)) + 1
	case 0:
		m.IDInt = int64(plan.Draw(10))
	case 1:
		m.IDInt = -int64(plan.Draw(1000))
	case 2:
		m.IDInt = int64(plan.Draw(1 << 30))
	case 3:
		m.IDInt = 1<<53 - int64(plan.Draw(3))
	case 4:
		m.IDInt = -(1 << 53) + int64(plan.Draw(3))
	}
	m.IDStr = []string{"", "a", "id-1", "\"q\"", "üid", "1"}[plan.Draw(6)]
	m.Method = methodPool[plan.Draw(len(methodPool))]
	pick := func() string {
		if plan.Chance(150) {
			return ""
		}
		if big && plan.Chance(350) {
			return bigJSON(500+plan.Draw(6000), plan.Draw(36))
		}
		return jsonPool[plan.Draw(len(jsonPool))]
	}
	m.Params = pick()
	m.Result = pick()
	m.ErrCode = []int64{0, -32700, -32600, -32601, -32002, 1, 12345}[plan.Draw(7)]
	m.ErrMsg = msgPool[plan.Draw(len(msgPool))]
	m.Plain = plan.Chance(300)
	if m.Plain {
		m.ErrCode = 0
	} else {
		m.Wrapped = plan.Chance(300)
	}
	return m
}

func (m mdesc) id() jsonrpc2.ID {
	if m.StrID {
		return jsonrpc2.StringID(m.IDStr)
	}
	return jsonrpc2.Int64ID(m.IDInt)
}

func raw(s string) json.RawMessage {
	if s == "" {
		return nil
	}
	return json.RawMessage(s)
}

// build makes the package's message for the description.
func (m mdesc) build() (jsonrpc2.Message, error) {
	switch m.Kind {
	case 0:
		var p interface{}
		if m.Params != "" {
			p = raw(m.Params)
		}
		return jsonrpc2.NewCall(m.id(), m.Method, p)
	case 1:
		var p interface{}
		if m.Params != "" {
			p = raw(m.Params)
		}
		return jsonrpc2.NewNotification(m.Method, p)
	}
	r := &jsonrpc2.Response{ID: m.id()}
	if m.Kind == 2 || m.Kind == 4 {
		r.Result = raw(m.Result)
	}
	if m.Kind == 3 || m.Kind == 4 {
		if m.Plain {
			r.Error = errors.New(m.ErrMsg)
		} else if m.Wrapped {
			r.Error = &outerErr{msg: m.ErrMsg, inner: jsonrpc2.NewError(m.ErrCode, "inner message")}
		} else {
			r.Error = jsonrpc2.NewError(m.ErrCode, m.ErrMsg)
		}
	}
	return r, nil
}

// outerErr wraps a coded error and has its own message.
type outerErr struct {
	msg   string
	inner error
}

func (e *outerErr) Error() string { return e.msg }
func (e *outerErr) Unwrap() error { return e.inner }

func jsonEqual(a, b []byte) bool {
	if len(bytes.TrimSpace(a)) == 0 && len(bytes.TrimSpace(b)) == 0 {
		return true
	}
	var x, y interface{}
	da := json.NewDecoder(bytes.NewReader(a))
	da.UseNumber()
	db := json.NewDecoder(bytes.NewReader(b))
	db.UseNumber()
	if da.Decode(&x) != nil || db.Decode(&y) != nil {
		return false
	}
	return reflect.DeepEqual(x, y)
}

// same compares a decoded message with its description.
func same(got jsonrpc2.Message, m mdesc) string {
	switch g := got.(type) {
	case *jsonrpc2.Request:
		if m.Kind > 1 {
			return "decoded a request where a response was written"
		}
		if g.Method != m.Method {
			return fmt.Sprintf("method %q, want %q", g.Method, m.Method)
		}
		if m.Kind == 0 {
			if !g.IsCall() || g.ID.Raw() != m.id().Raw() {
				return fmt.Sprintf("id %#v, want %#v", g.ID.Raw(), m.id().Raw())
			}
		} else if g.IsCall() {
			return "notification decoded with an id"
		}
		if !jsonEqual(g.Params, []byte(m.Params)) {
			return fmt.Sprintf("params %s, want %s", g.Params, m.Params)
		}
	case *jsonrpc2.Response:
		if m.Kind < 2 {
			return "decoded a response where a request was written"
		}
		if g.ID.Raw() != m.id().Raw() {
			return fmt.Sprintf("id %#v, want %#v", g.ID.Raw(), m.id().Raw())
		}
		wantRes := ""
		if m.Kind == 2 || m.Kind == 4 {
			wantRes = m.Result
		}
		if !jsonEqual(g.Result, []byte(wantRes)) {
			return fmt.Sprintf("result %s, want %s", g.Result, wantRes)
		}
		if m.Kind == 3 || m.Kind == 4 {
			if g.Error == nil {
				return "error lost"
			}
			if g.Error.Error() != m.ErrMsg {
				return fmt.Sprintf("error message %q, want %q", g.Error.Error(), m.ErrMsg)
			}
			if !errors.Is(g.Error, jsonrpc2.NewError(m.ErrCode, "")) {
				return fmt.Sprintf("error code differs, want %d", m.ErrCode)
			}
		} else if g.Error != nil {
			return fmt.Sprintf("unexpected error %v", g.Error)
		}
	default:
		return fmt.Sprintf("unexpected message type %T", got)
	}
	return ""
}

// --- simulated streams --------------------------------------------------------------

var errStream = errors.New("simio: stream failed")

type simReader struct {
	data    []byte
	pos     int
	chunk   func(avail, want int) int // how many bytes to hand out
	endErr  error                     // what the stream returns at its end (io.EOF or a failure)
	eofWith bool                      // deliver the last bytes together with the end error
	zero    int                       // number of (0, nil) reads to inject
	reads   int
	maxPos  int
	onRead  func(call int) // hook invoked at the start of every stream read (asynchronous events land here)
}

func (r *simReader) Read(b []byte) (int, error) {
	r.reads++
	if r.onRead != nil {
		r.onRead(r.reads)
	}
	if len(b) == 0 {
		return 0, nil
	}
	if r.pos >= len(r.data) {
		return 0, r.endErr
	}
	if r.zero > 0 && r.reads%3 == 0 {
		r.zero--
		return 0, nil
	}
	avail := len(r.data) - r.pos
	n := avail
	if n > len(b) {
		n = len(b)
	}
	if r.chunk != nil {
		if k := r.chunk(avail, n); k >= 1 && k < n {
			n = k
		}
	}
	copy(b, r.data[r.pos:r.pos+n])
	r.pos += n
	if r.pos >= len(r.data) && r.eofWith {
		return n, r.endErr
	}
	return n, nil
}

type simWriter struct {
	buf    bytes.Buffer
	failAt int // fail once this many bytes were accepted (<0: never)
	calls  int
	transientCall int // this call (1-based) fails once, accepting a prefix; later calls succeed (0: never)
	failed bool
	refuseNext bool // the next call accepts nothing and fails (a write deadline that expired, EAGAIN); later calls succeed
	onCall     func(call int) // invoked at the start of every call, before the bytes are taken over (another connection of the process is active meanwhile)
}

func (w *simWriter) Write(b []byte) (int, error) {
	w.calls++
	if w.onCall != nil {
		w.onCall(w.calls)
	}
	if w.refuseNext {
		w.refuseNext = false
		w.failed = true
		return 0, errStream
	}
	if w.transientCall > 0 && w.calls == w.transientCall {
		w.failed = true
		n := len(b) / 2
		w.buf.Write(b[:n])
		return n, errStream
	}
	if w.failAt >= 0 && w.buf.Len()+len(b) > w.failAt {
		n := w.failAt - w.buf.Len()
		if n < 0 {
			n = 0
		}
		w.buf.Write(b[:n])
		return n, errStream
	}
	return w.buf.Write(b)
}

// --- the run ---------------------------------------------------------------------------

type c38run struct {
	long    bool
	msgs    []mdesc
	mode    int
	work    []string
	whash   uint64
	extra   map[string]int
	failure *simrt.Failure
	cases   int
	plan    *simrt.Source
	exotic  bool
	thorough bool
}

func (c38) NewRun(plan *simrt.Source, job *harn.Job) harn.Run {
	r := &c38run{extra: map[string]int{}, thorough: job.Tier == "thorough"}
	r.mode = plan.Draw(4) // 0 round trip + truncation, 1 writer faults + ctx, 2 malformed, 3 corruption
	big := plan.Chance(250)
	r.exotic = job.Knobs["exotic_ids"] == 1
	n := 1 + plan.Draw(6)
	if big {
		n = 2 + plan.Draw(5)
	}
	if plan.Chance(30) {
		// a long session: hundreds of messages on one stream (state the framer or
		// codec accumulates across messages), now and then a body of several
		// hundred kilobytes
		r.long = true
		n = 100 + plan.Draw(200)
		r.mode = plan.Draw(2)
	}
	for i := 0; i < n; i++ {
		m := genMsg(plan, big && !r.long, r.exotic)
		if r.long && plan.Chance(10) {
			m.Params = bigJSON(200000+plan.Draw(600000), plan.Draw(36))
		}
		r.msgs = append(r.msgs, m)
	}
	if r.mode == 0 && !r.long && plan.Chance(150) {
		// the stream ends with a body well beyond any internal buffer size
		r.msgs[len(r.msgs)-1].Params = bigJSON(9000+plan.Draw(60000), plan.Draw(36))
	}
	r.work = append(r.work, []string{"mode: round trip under chunking + truncation at every offset", "mode: writer failure at a byte offset + context cancellation", "mode: malformed frames", "mode: byte corruption"}[r.mode])
	h := uint64(14695981039346656037) ^ uint64(r.mode)
	for _, m := range r.msgs {
		s := m.String()
		r.work = append(r.work, s)
		for _, c := range []byte(s) {
			h = (h ^ uint64(c)) * 1099511628211
		}
	}
	r.whash = h
	return r
}

func (r *c38run) Strategy() simrt.Strategy              { return simrt.Strategy{} }
func (r *c38run) Body(s *simrt.Sim)                      {}
func (r *c38run) OnStep(s *simrt.Sim) *simrt.Failure     { return nil }
func (r *c38run) StateSig() uint64                       { return 0 }
func (r *c38run) OnQuiesce(s *simrt.Sim, n int) bool     { return false }
func (r *c38run) Workload() interface{}                  { return r.work }
func (r *c38run) WorkHash() uint64                       { return r.whash }
func (r *c38run) Extra() map[string]int                  { return r.extra }
func (r *c38run) Nontrivial(res *simrt.Result) bool      { return r.cases >= 2 }
func (r *c38run) Check(res *simrt.Result) *simrt.Failure { return r.failure }

// note counts an observation that contradicts the documented behaviour of the
// package but is not part of the statement of C38 (which speaks of reading
// back what was written and of malformed streams); never a violation.
func (r *c38run) note(what string) { r.extra["beyond-statement:"+what]++ }

func (r *c38run) fail(class, msg, site string) {
	if r.failure == nil {
		r.failure = &simrt.Failure{Class: class, Msg: msg, Sites: []string{site}}
	}
}

// writeAll frames the messages with the real writer; ends[i] is the stream
// length after message i.
func (r *c38run) writeAll(w io.Writer, msgs []mdesc) (ends []int, sizer func() int, err error) {
	fw := jsonrpc2.HeaderFramer().Writer(w)
	total := 0
	for _, m := range msgs {
		msg, e := m.build()
		if e != nil {
			return ends, nil, fmt.Errorf("building %v: %v", m, e)
		}
		n, e := fw.Write(context.Background(), msg)
		total += int(n)
		if e != nil {
			return ends, nil, e
		}
		ends = append(ends, total)
	}
	return ends, nil, nil
}

type readOutcome struct {
	msgs     []jsonrpc2.Message
	err      error
	panicked interface{}
	consumed int64
}

// readBack reads messages until the first error.
func readBack(rd io.Reader, max int) (out readOutcome) {
	defer func() {
		if p := recover(); p != nil {
			out.panicked = p
		}
	}()
	fr := jsonrpc2.HeaderFramer().Reader(rd)
	for i := 0; i < max; i++ {
		msg, n, err := fr.Read(context.Background())
		out.consumed += n
		if err != nil {
			out.err = err
			return
		}
		out.msgs = append(out.msgs, msg)
	}
	return
}

func (r *c38run) expectPrefix(what string, out readOutcome, msgs []mdesc, k int, needErr bool) {
	r.cases++
	if out.panicked != nil {
		r.fail("panic", fmt.Sprintf("%s: reader panicked: %v", what, out.panicked), "reader panicked")
		return
	}
	if len(out.msgs) != k {
		r.fail("oracle:message-count", fmt.Sprintf("%s: read %d messages (then %v), want exactly %d", what, len(out.msgs), out.err, k), "wrong number of messages read back")
		return
	}
	for i := 0; i < k; i++ {
		if d := same(out.msgs[i], msgs[i]); d != "" {
			r.fail("oracle:message-differs", fmt.Sprintf("%s: message %d (%v): %s", what, i, msgs[i], d), "message read back differs")
			return
		}
	}
	if needErr && out.err == nil {
		r.fail("oracle:no-error", what+": the stream ended but the reader reported no error", "no error at end of stream")
	}
}

func (r *c38run) RunSeq(sched *simrt.Source, keepLog bool) *simrt.Result {
	res := &simrt.Result{States: map[uint64]struct{}{}, Probes: map[string]int{}, Faults: map[string]int{}}
	hash := uint64(1469598103934665603)
	mix := func(v int) { hash = (hash ^ uint64(v+1)) * 1099511628211 }
	logf := func(format string, a ...interface{}) {
		if keepLog && len(res.Log) < 200 {
			res.Log = append(res.Log, fmt.Sprintf(format, a...))
		}
	}
	// the stream as the real writer produces it
	sink := &simWriter{failAt: -1}
	ends, _, err := r.writeAll(sink, r.msgs)
	if err != nil {
		r.fail("oracle:write-failed", "writing a valid message sequence failed: "+err.Error(), "writer rejected a valid message")
		res.Failure = r.failure
		return res
	}
	stream := append([]byte(nil), sink.buf.Bytes()...)
	mix(len(stream))
	seeded := func() func(avail, want int) int {
		return func(avail, want int) int {
			switch sched.Draw(4) {
			case 0:
				return want
			case 1:
				return 1
			case 2:
				return 1 + sched.Draw(24)
			}
			return 1 + sched.Draw(want)
		}
	}
	frameEndsBefore := func(t int) int {
		k := 0
		for _, e := range ends {
			if e <= t {
				k++
			}
		}
		return k
	}
	switch r.mode {
	case 0:
		// (a) whole stream under seeded chunkings
		for rep := 0; rep < 3; rep++ {
			rd := &simReader{data: stream, chunk: seeded(), endErr: io.EOF, eofWith: sched.Chance(300), zero: sched.Draw(3)}
			out := readBack(rd, len(r.msgs)+1)
			res.Faults["seeded-chunking"]++
			r.expectPrefix("whole stream, seeded chunking", out, r.msgs, len(r.msgs), true)
		}
		// (a') a transport that hands over everything it has in one call and reports
		// the end of the stream together with the last bytes
		{
			rd := &simReader{data: stream, endErr: io.EOF, eofWith: true}
			out := readBack(rd, len(r.msgs)+1)
			res.Faults["all-at-once-with-eof"]++
			r.expectPrefix("whole stream delivered greedily, EOF together with the last bytes", out, r.msgs, len(r.msgs), true)
		}
		// (b) every single split position (exhaustive for this stream) up to a bound
		bound := len(stream)
		if bound > 1500 && (!r.thorough || r.long) {
			bound = 1500
		}
		stride := 1
		if r.long {
			stride = 1 + bound/25 // a long session: a sample of positions, each read-back covers hundreds of messages
		}
		for cut := 1; cut < bound && r.failure == nil; cut += stride {
			first := true
			c := cut
			rd := &simReader{data: stream, endErr: io.EOF, chunk: func(avail, want int) int {
				if first {
					first = false
					return c
				}
				return want
			}}
			out := readBack(rd, len(r.msgs)+1)
			res.Faults["split-position"]++
			r.expectPrefix(fmt.Sprintf("stream split once at byte %d", cut), out, r.msgs, len(r.msgs), true)
		}
		// (c) truncation at every byte offset, alternating EOF and a failure
		for t := 0; t < bound && r.failure == nil; t += stride {
			endErr := io.EOF
			if t%2 == 1 {
				endErr = errStream
			}
			rd := &simReader{data: stream[:t], endErr: endErr, chunk: seeded(), eofWith: t%3 == 0}
			out := readBack(rd, len(r.msgs)+1)
			res.Faults["truncation"]++
			r.expectPrefix(fmt.Sprintf("stream cut at byte %d of %d (%v)", t, len(stream), endErr), out, r.msgs, frameEndsBefore(t), true)
		}
		logf("round trip of %d messages, %d bytes: %d cases", len(r.msgs), len(stream), r.cases)
	case 1:
		// writer failure at a seeded offset: what reached the stream is an exact prefix of frames
		for rep := 0; rep < 8 && r.failure == nil; rep++ {
			at := sched.Draw(len(stream) + 1)
			w := &simWriter{failAt: at}
			_, _, werr := r.writeAll(w, r.msgs)
			res.Faults["write-failure"]++
			r.cases++
			if at < len(stream) && werr == nil {
				r.note("stream failure not reported by Write")
			}
			if !bytes.Equal(w.buf.Bytes(), stream[:w.buf.Len()]) {
				r.fail("oracle:write-bytes", "bytes accepted before the failure are not a prefix of the fault-free stream", "written bytes differ")
				break
			}
			out := readBack(&simReader{data: w.buf.Bytes(), endErr: io.EOF, chunk: seeded()}, len(r.msgs)+1)
			r.expectPrefix(fmt.Sprintf("stream written until failure at byte %d", at), out, r.msgs, frameEndsBefore(w.buf.Len()), true)
		}
		// a single failing call to the stream must surface as an error of that Write
		for rep := 0; rep < 4 && r.failure == nil; rep++ {
			w := &simWriter{failAt: -1, transientCall: 1 + sched.Draw(2*len(r.msgs))}
			_, _, werr := r.writeAll(w, r.msgs)
			res.Faults["transient-write-failure"]++
			r.cases++
			if w.failed && werr == nil {
				r.note("failing stream call not reported by Write")
			}
		}
		// The stream refuses the first call of one message's Write without accepting
		// a byte (an expired write deadline), then works again. Whatever the framer
		// does with that message — report the failure (the unchanged code), or even
		// swallow it — the stream must read back as exactly the messages whose Write
		// reported success, in order: a message reported as failed must not surface
		// later, and its failure must not damage the frames around it.
		for rep := 0; rep < 3 && r.failure == nil; rep++ {
			w := &simWriter{failAt: -1}
			fw := jsonrpc2.HeaderFramer().Writer(w)
			k := sched.Draw(len(r.msgs))
			retry := sched.Draw(2) == 1
			var okMsgs []mdesc
			for i := 0; i < len(r.msgs); i++ {
				msg, _ := r.msgs[i].build()
				if i == k {
					w.refuseNext = true
					res.Faults["write-refused-at-frame-start"]++
				}
				_, err := fw.Write(context.Background(), msg)
				w.refuseNext = false
				if err == nil {
					okMsgs = append(okMsgs, r.msgs[i])
				} else if i == k && retry {
					if _, err := fw.Write(context.Background(), msg); err == nil {
						okMsgs = append(okMsgs, r.msgs[i])
					}
				}
			}
			out := readBack(&simReader{data: w.buf.Bytes(), endErr: io.EOF, chunk: seeded()}, len(r.msgs)+2)
			r.expectPrefix(fmt.Sprintf("stream whose first call of message %d's Write was refused with 0 bytes accepted (retried: %v)", k, retry), out, okMsgs, len(okMsgs), true)
		}
		// Two connections in one process: while a stream call of writer A is in
		// flight (the transport has not taken the bytes over yet), writer B — another
		// framer, another stream — writes a message. Neither stream may be affected
		// by the other.
		for rep := 0; rep < 2 && r.failure == nil; rep++ {
			wA, wB := &simWriter{failAt: -1}, &simWriter{failAt: -1}
			fA, fB := jsonrpc2.HeaderFramer().Writer(wA), jsonrpc2.HeaderFramer().Writer(wB)
			at := 1 + sched.Draw(2*len(r.msgs))
			other := r.msgs[sched.Draw(len(r.msgs))]
			var sentB []mdesc
			wA.onCall = func(call int) {
				if call == at {
					if mb, err := other.build(); err == nil {
						if _, err := fB.Write(context.Background(), mb); err == nil {
							sentB = append(sentB, other)
						}
					}
					res.Faults["second-connection-writes-during-a-stream-call"]++
				}
			}
			for i := range r.msgs {
				msg, _ := r.msgs[i].build()
				if _, err := fA.Write(context.Background(), msg); err != nil {
					r.fail("oracle:write-failed", "writing a valid message failed: "+err.Error(), "writer rejected a valid message")
				}
			}
			if r.failure == nil {
				outA := readBack(&simReader{data: wA.buf.Bytes(), endErr: io.EOF, chunk: seeded()}, len(r.msgs)+1)
				r.expectPrefix("stream of connection A while connection B wrote during one of its stream calls", outA, r.msgs, len(r.msgs), true)
			}
			if r.failure == nil {
				outB := readBack(&simReader{data: wB.buf.Bytes(), endErr: io.EOF, chunk: seeded()}, len(sentB)+1)
				r.expectPrefix("stream of connection B", outB, sentB, len(sentB), true)
			}
		}
		// a message that cannot be encoded is refused without writing anything,
		// so the frames around it still read back exactly
		{
			w := &simWriter{failAt: -1}
			fw := jsonrpc2.HeaderFramer().Writer(w)
			k := sched.Draw(len(r.msgs) + 1)
			for i := 0; i <= len(r.msgs) && r.failure == nil; i++ {
				if i == k {
					before := w.buf.Len()
					_, err := fw.Write(context.Background(), &jsonrpc2.Request{Method: "unencodable", Params: json.RawMessage(`{"broken`)})
					res.Faults["unencodable-message"]++
					r.cases++
					if err == nil {
						r.note("unencodable message reported no error")
					} else if w.buf.Len() != before {
						r.fail("oracle:write-bytes", fmt.Sprintf("a refused message left %d bytes in the stream", w.buf.Len()-before), "refused message wrote bytes")
					}
				}
				if i < len(r.msgs) {
					msg, _ := r.msgs[i].build()
					if _, err := fw.Write(context.Background(), msg); err != nil {
						r.fail("oracle:write-failed", "writing a valid message failed: "+err.Error(), "writer rejected a valid message")
					}
				}
			}
			if r.failure == nil {
				out := readBack(&simReader{data: w.buf.Bytes(), endErr: io.EOF, chunk: seeded()}, len(r.msgs)+1)
				r.expectPrefix("stream with a refused message in the middle", out, r.msgs, len(r.msgs), true)
			}
		}
		// cancelled contexts consume and produce nothing
		cctx, cancel := context.WithCancel(context.Background())
		cancel()
		w := &simWriter{failAt: -1}
		fw := jsonrpc2.HeaderFramer().Writer(w)
		msg, _ := r.msgs[0].build()
		if _, err := fw.Write(cctx, msg); err == nil || w.buf.Len() != 0 {
			r.note("Write with a cancelled context wrote data")
		}
		rd := &simReader{data: stream, endErr: io.EOF, chunk: seeded()}
		fr := jsonrpc2.HeaderFramer().Reader(rd)
		k := sched.Draw(len(r.msgs))
		for i := 0; i < len(r.msgs) && r.failure == nil; i++ {
			if i == k {
				res.Faults["context-cancelled"]++
				if m, _, err := fr.Read(cctx); err == nil {
					// the cancellation was ignored: then this IS message i
					r.note("Read with a cancelled context returned a message")
					if d := same(m, r.msgs[i]); d != "" {
						r.fail("oracle:message-differs", fmt.Sprintf("message %d: %s", i, d), "message read back differs")
					}
					continue
				}
			}
			m, _, err := fr.Read(context.Background())
			r.cases++
			if err != nil {
				r.fail("oracle:message-count", fmt.Sprintf("message %d after a cancelled Read: %v", i, err), "wrong number of messages read back")
			} else if d := same(m, r.msgs[i]); d != "" {
				r.fail("oracle:message-differs", fmt.Sprintf("message %d after a cancelled Read: %s", i, d), "message read back differs")
			}
		}
		// The context is cancelled WHILE a Read is in progress (cancellation is
		// asynchronous: it lands between two reads of the stream, e.g. after the
		// header arrived and before the body did). Whatever the reader does with
		// it — ignore it (the unchanged code looks at the context on entry only)
		// or give up with the context's error — the stream must stay in step:
		// retrying with a live context yields every message, in order.
		for rep := 0; rep < 3 && r.failure == nil; rep++ {
			cctx, cancel := context.WithCancel(context.Background())
			at := 1 + sched.Draw(3*len(r.msgs)+2)
			split := seeded()
			rd := &simReader{data: stream, endErr: io.EOF, chunk: func(avail, want int) int {
				// small pieces, so that headers and bodies arrive by separate reads
				if k := split(avail, want); k < want {
					return k
				}
				return 1 + want/3
			}}
			rd.onRead = func(call int) {
				if call == at {
					cancel()
					res.Faults["context-cancelled-mid-read"]++
				}
			}
			fr := jsonrpc2.HeaderFramer().Reader(rd)
			ctx := context.Context(cctx)
			gaveUp := 0
			for i := 0; i < len(r.msgs) && r.failure == nil; i++ {
				m, _, err := fr.Read(ctx)
				if err != nil && errors.Is(err, context.Canceled) && gaveUp < 2 {
					gaveUp++
					ctx = context.Background()
					m, _, err = fr.Read(ctx)
				}
				if ctx.Err() != nil {
					ctx = context.Background() // the cancellation was ignored by this Read; go on with a live context
				}
				r.cases++
				if err != nil {
					r.fail("oracle:message-count", fmt.Sprintf("context cancelled at stream read %d (reads given up: %d): message %d could not be read with a live context afterwards: %v", at, gaveUp, i, err), "wrong number of messages read back")
				} else if d := same(m, r.msgs[i]); d != "" {
					r.fail("oracle:message-differs", fmt.Sprintf("context cancelled at stream read %d (reads given up: %d): message %d: %s", at, gaveUp, i, d), "message read back differs")
				}
			}
			cancel()
		}
	case 2:
		r.malformed(sched, res, stream, ends, seeded)
	case 3:
		// byte corruption: must terminate without panic; not otherwise judged
		for rep := 0; rep < 20; rep++ {
			bad := append([]byte(nil), stream...)
			for k, n := 0, 1+sched.Draw(3); k < n; k++ {
				bad[sched.Draw(len(bad))] ^= byte(1 << uint(sched.Draw(8)))
			}
			// keep Content-Length small: this is not an allocation benchmark
			if bytes.Contains(bad, []byte("Content-Length: ")) {
				out := readBack(&simReader{data: capLengths(bad), endErr: io.EOF, chunk: seeded()}, len(r.msgs)+4)
				res.Faults["byte-flip"]++
				r.cases++
				if out.panicked != nil {
					r.fail("panic", fmt.Sprintf("reader panicked on a corrupted stream: %v", out.panicked), "reader panicked")
				}
			}
		}
	}
	mix(r.cases)
	r.extra["cases"] += r.cases
	res.Steps = r.cases
	res.Switches = r.cases
	res.SchedHash = hash
	res.Failure = r.failure
	return res
}

// capLengths rewrites absurd Content-Length values (after corruption) so the
// reader is not asked to allocate gigabytes.
func capLengths(b []byte) []byte {
	out := b
	key := []byte("Content-Length: ")
	for i := 0; ; {
		j := bytes.Index(out[i:], key)
		if j < 0 {
			return out
		}
		s := i + j + len(key)
		e := s
		for e < len(out) && out[e] >= '0' && out[e] <= '9' {
			e++
		}
		if e-s > 5 {
			out = append(append(append([]byte(nil), out[:s]...), []byte("65536")...), out[e:]...)
			e = s + 5
		}
		i = e
	}
}

// malformed: an independent reference framer builds streams in which frame k
// is definitely malformed; frames before it must be read back intact, the
// reader must report an error at frame k, and when only the BODY of frame k
// is bad the next frame must still be read exactly (the reader consumed the
// declared length, no more, no less).
func (r *c38run) malformed(sched *simrt.Source, res *simrt.Result, stream []byte, ends []int, seeded func() func(int, int) int) {
	frame := func(i int) []byte {
		s := 0
		if i > 0 {
			s = ends[i-1]
		}
		return stream[s:ends[i]]
	}
	hdr := func(body string) string { return fmt.Sprintf("Content-Length: %d\r\n\r\n%s", len(body), body) }
	type bad struct {
		name     string
		bytes    string
		bodyOnly bool // the frame is well delimited, only its content is invalid
	}
	bads := []bad{
		{"header line without colon", "Content-Length 12\r\n\r\n{\"jsonrpc\":\"2.0\",\"method\":\"x\"}", false},
		{"missing Content-Length", "Content-Type: application/json\r\n\r\n{\"jsonrpc\":\"2.0\",\"method\":\"x\"}", false},
		{"empty header block", "\r\n{\"jsonrpc\":\"2.0\",\"method\":\"x\"}", false},
		{"non-numeric Content-Length", "Content-Length: abc\r\n\r\n{}", false},
		{"negative Content-Length", "Content-Length: -5\r\n\r\n{}", false},
		{"zero Content-Length", "Content-Length: 0\r\n\r\n", false},
		{"Content-Length beyond int32", "Content-Length: 99999999999\r\n\r\n{}", false},
		{"body is not JSON", hdr("this is not json at all"), true},
		{"body is truncated JSON", hdr(`{"jsonrpc":"2.0","method":"x"`), true},
		{"wrong version tag", hdr(`{"jsonrpc":"1.0","id":1,"method":"x"}`), true},
		{"missing version tag", hdr(`{"id":1,"method":"x"}`), true},
		{"id is an object", hdr(`{"jsonrpc":"2.0","id":{"a":1},"method":"x"}`), true},
		{"id is a boolean", hdr(`{"jsonrpc":"2.0","id":true,"method":"x"}`), true},
		{"neither method nor id", hdr(`{"jsonrpc":"2.0","result":1}`), true},
		{"body is a JSON array", hdr(`[1,2,3]`), true},
		{"method is a number", hdr(`{"jsonrpc":"2.0","id":1,"method":5}`), true},
	}
	// The stream ends inside the body of the last frame, but what did arrive
	// is a complete JSON message (the declared length is larger than the body,
	// or the cut falls into trailing white space): a truncated frame, an error.
	good := `{"jsonrpc":"2.0","id":7,"method":"truncated"}`
	for _, over := range []int{1, 2, 5, 100, 4096} {
		bads = append(bads, bad{fmt.Sprintf("stream ends %d bytes before the declared length (complete JSON arrived)", over),
			fmt.Sprintf("Content-Length: %d\r\n\r\n%s", len(good)+over, good), false})
	}
	// More than one JSON value inside the declared length: the frame is not a
	// single message. (Only when the body is well delimited can the following
	// frames still be expected.)
	bads = append(bads,
		bad{"two JSON objects in one frame", hdr(good + good), true},
		bad{"JSON object followed by other bytes in one frame", hdr(good + ` true`), true},
		bad{"declared length swallows the next frame", fmt.Sprintf("Content-Length: %d\r\n\r\n%s%s", len(good)+len(hdr(good)), good, hdr(good)), true},
	)
	bads = append(bads, bad{"stream ends inside trailing white space of the body",
		fmt.Sprintf("Content-Length: %d\r\n\r\n%s  ", len(good)+6, good), false})
	for _, b := range bads {
		if r.failure != nil {
			return
		}
		k := sched.Draw(len(r.msgs) + 1) // position of the bad frame
		if strings.HasPrefix(b.name, "stream ends") {
			k = len(r.msgs) // nothing may follow: the stream ends here
		}
		var s []byte
		for i := 0; i < k; i++ {
			s = append(s, frame(i)...)
		}
		s = append(s, b.bytes...)
		for i := k; i < len(r.msgs); i++ {
			s = append(s, frame(i)...)
		}
		res.Faults["malformed:"+b.name]++
		r.cases++
		// read frame by frame so that we can continue after the error
		var panicked interface{}
		func() {
			defer func() { panicked = recover() }()
			fr := jsonrpc2.HeaderFramer().Reader(&simReader{data: s, endErr: io.EOF, chunk: seeded()})
			for i := 0; i < k; i++ {
				m, _, err := fr.Read(context.Background())
				if err != nil {
					r.fail("oracle:message-count", fmt.Sprintf("%s at frame %d: frame %d before it failed: %v", b.name, k, i, err), "wrong number of messages read back")
					return
				}
				if d := same(m, r.msgs[i]); d != "" {
					r.fail("oracle:message-differs", fmt.Sprintf("%s at frame %d: frame %d before it: %s", b.name, k, i, d), "message read back differs")
					return
				}
			}
			m, _, err := fr.Read(context.Background())
			if err == nil {
				r.fail("oracle:malformed-accepted", fmt.Sprintf("malformed frame (%s) was accepted as %T", b.name, m), "malformed frame accepted: "+b.name)
				return
			}
			if !b.bodyOnly {
				return
			}
			// exact frame boundary: the following frames are intact
			for i := k; i < len(r.msgs); i++ {
				m, _, err := fr.Read(context.Background())
				if err != nil {
					r.fail("oracle:frame-boundary", fmt.Sprintf("after a frame with a bad body (%s) the next frame could not be read: %v", b.name, err), "reader did not stop at the declared content length")
					return
				}
				if d := same(m, r.msgs[i]); d != "" {
					r.fail("oracle:frame-boundary", fmt.Sprintf("after a frame with a bad body (%s) frame %d differs: %s", b.name, i, d), "reader did not stop at the declared content length")
					return
				}
			}
		}()
		if panicked != nil {
			r.fail("panic", fmt.Sprintf("reader panicked on %s: %v", b.name, panicked), "reader panicked")
		}
	}
}

func TestZSimC38(t *testing.T) { harn.Main(t, c38{}) }
