package main

import (
	"encoding/json"
	"fmt"
	"os"
	"os/exec"
	"path/filepath"
	"strings"
	"time"

	"verif.local/simgen"
)

type harnessCopy struct {
	Dir  string // under /verif/harness
	Dest string // package directory in the scratch repository
}

type spec struct {
	ID, Title      string
	Level          string
	Instrument     map[string]simgen.Options
	Harness        []harnessCopy
	TestPkg        string // package directory of the simulation test binary
	TestName       string
	Porcupine      bool
	Cover          string
	QuickRuns      int
	ThoroughRuns   int
	QuickBudget    time.Duration
	ThoroughBudget time.Duration
	MaxStepsQuick  int
	MaxStepsThor   int
	Chunk          int
	Rule           string
	Real, Stubbed  []string
	Assumptions    []string
	NoDeterminism  bool
	Prepare        func(sc *scratch, env []string) error
	Custom         func(sp *spec, tier string, seed uint64) int
	Replay         func(sp *spec, path string) int
	// Post runs after the exploration (same scratch tree); it returns extra
	// coverage keys for the evidence and descriptions of violations it found.
	Post func(sc *scratch, sp *spec, tier string, seed uint64) (map[string]interface{}, []string)
}

func (s *spec) maxSteps(tier string) int {
	if tier == "thorough" && s.MaxStepsThor > 0 {
		return s.MaxStepsThor
	}
	if s.MaxStepsQuick > 0 {
		return s.MaxStepsQuick
	}
	return 5000
}

func (s *spec) chunk() int {
	if s.Chunk > 0 {
		return s.Chunk
	}
	return 2000
}

// watchdog bounds one worker process (one chunk of runs). It exists to turn a
// worker that really hangs (a goroutine blocked in something the simulator does
// not know) into exit 2; it is generous because a busy machine can slow the
// file-system-heavy checks down by an order of magnitude.
func (s *spec) watchdog() time.Duration { return 20 * time.Minute }

func (s *spec) shrinkBudget(tier string) int {
	if tier == "thorough" {
		return 4000
	}
	return 1500
}

const xgo = simgen.RootMod

var specs = map[string]*spec{}

func register(s *spec) { specs[s.ID] = s }

func init() {
	register(&spec{
		ID: "C40", Title: "Watch mode never loses or duplicates a changed directory", Level: "exploration",
		Instrument: map[string]simgen.Options{xgo + "/x/watcher": {Sync: true, Conc: true, Maps: true}},
		Harness:    []harnessCopy{{"c40", "x/watcher"}},
		TestPkg:    "x/watcher", TestName: "TestZSimC40", Porcupine: true,
		QuickRuns: 20000, ThoroughRuns: 5000000, QuickBudget: 3 * time.Minute, ThoroughBudget: 40 * time.Minute,
		MaxStepsQuick: 5000, MaxStepsThor: 20000, Chunk: 1250,
		Rule: "each run draws a workload (1-3 producers reporting into 2-4 directories (in 30% of the runs names that differ in case only or by a leading dot; watched roots that do not exist, exist, or exist under a name without letters) — FileChanged, EntryDeleted for files and directories, and in 40% of the runs DirAdded over one or two real directory trees below a real watched root; 4% of the runs are bursts: 2-3 producers reporting 30-70 distinct directories each while 1-2 fetchers take 5-30 — 1-3 fetchers, <=24 operations quick / <=40 thorough, then a wake-up phase and a sweep phase) and a scheduling strategy from its seed; the seeded scheduler decides every interleaving at each lock, unlock-wake, cond wait/broadcast and the map iteration order in Fetch. A run is non-trivial when its history has >=2 completed operations and >=2 context switches; distinct = distinct (event-log hash, workload hash) pairs among non-trivial runs",
		Real: []string{"x/watcher/changes.go (Changes.FileChanged, EntryDeleted, DirAdded, Ignore, Fetch, lookupMod/deleteMod) compiled from the working tree", "Go runtime, real goroutines released one at a time"},
		Stubbed: []string{"sync.Mutex and sync.Cond (simulated inside the scheduler; Signal wakes a seeded choice of waiter, no spurious wake-ups)", "map iteration order in Fetch (seeded permutation of the key snapshot)", "the fsnotify event source and watch loop are not exercised (DirAdded, Ignore and the module lookup run for real over a scratch directory)"},
		Assumptions: []string{"sync.Cond has no spurious wake-ups (documented)", "the standard library is that of go1.26.8", "porcupine v1.3.0 decides linearizability of the recorded history; Unknown (timeout) is counted as inconclusive"},
	})
	register(&spec{
		ID: "C41", Title: "Closing a fake connection unblocks pending I/O", Level: "exploration",
		Instrument: map[string]simgen.Options{xgo + "/x/fakenet": {Sync: true, Conc: true, Maps: true}},
		Harness:    []harnessCopy{{"c41", "x/fakenet"}},
		TestPkg:    "x/fakenet", TestName: "TestZSimC41",
		QuickRuns: 20000, ThoroughRuns: 3000000, QuickBudget: 3 * time.Minute, ThoroughBudget: 40 * time.Minute,
		MaxStepsQuick: 5000, MaxStepsThor: 20000, Chunk: 1250,
		Rule: "each run draws 0-2 readers, 0-2 writers (buffers of 1-6 bytes, 12% around 512/4096/8192/32768/65536), 0-2 closers (each optionally issuing operations after its Close returned), an input feeder, stream knobs (does Close unblock the underlying stream, k-th call fails, k-th write blocks for a while or forever, EOF or not) and a scheduling strategy from its seed; the scheduler decides every interleaving at each channel operation, select, lock and stream call, and short-read lengths. A settle phase closes the connection while operations may still be pending. Non-trivial = at least 2 completed connection calls and 3 context switches; distinct = distinct (event-log hash, workload hash) pairs",
		Real: []string{"x/fakenet/conn.go (NewConn, fakeConn.Read/Write/Close, connFeeder.do/run/close) compiled from the working tree", "real channels and select statements (polling order decided by the simulator)"},
		Stubbed: []string{"sync.Mutex (simulated)", "the underlying in/out streams (simulated: short reads, errors, blocking, Close that does or does not unblock)"},
		Assumptions: []string{"the standard library is that of go1.26.8", "a goroutine woken by another goroutine's channel operation runs only up to its next scheduling point concurrently with its waker"},
	})
	register(&spec{
		ID: "C39", Title: "Every JSON-RPC call completes exactly once with its own answer", Level: "exploration",
		Instrument: map[string]simgen.Options{xgo + "/x/jsonrpc2": {Sync: true, Conc: true, Maps: true, Swap: map[string]string{"time": simgen.SimrtPath + "/stime", "runtime": simgen.SimrtPath + "/sruntime"}}, xgo + "/x/fakenet": {Sync: true, Conc: true, Maps: true}},
		Harness:    []harnessCopy{{"c39", "x/jsonrpc2"}},
		TestPkg:    "x/jsonrpc2", TestName: "TestZSimC39",
		QuickRuns: 16000, ThoroughRuns: 6000000, QuickBudget: 4 * time.Minute, ThoroughBudget: 60 * time.Minute,
		MaxStepsQuick: 40000, MaxStepsThor: 60000, Chunk: 375,
		Rule: "each run draws a transport (synchronous pipe like net.Pipe, or 64/4096-byte buffers), a fault plan (none in ~35% of runs; otherwise short reads, chunked writes, a disconnect in the middle of a write or first noticed by a read, a cut at a byte offset, a half-close, a stall healed in the settle phase), in ~20% of runs a scripted raw peer instead of the second connection (duplicate responses, responses with unknown or wrong-kind ids, error responses, no response, garbage frames, duplicate request ids, unsolicited responses), in ~25% of the other runs a second client dialling the same server, in ~20% the server behind NewIdleListener (timeout 1 ms / 50 ms / 60 s of simulated time, early-expiry rate 0-15% per step, 0-2 further clients that dial once the first has closed), in ~8% (30% behind the idle listener) one Accept that fails with an ordinary error, in 2.5% a flood of 70-130 concurrent callers on each side whose calls are answered from the peers' read loops, 1-4 caller tasks spread over the two endpoints issuing calls (echo, peek answered on the read loop, slow, async with a later Respond, re-entrant, failing, unknown), notifications, cancel notifications, cancelled Await contexts, Call/Notify with their own cancelled or soon-cancelled contexts, second awaiters, Close and Wait, and a scheduling strategy. After the first quiescence faults stop, blocked handlers are released and both ends are closed. Non-trivial = at least one completed Await and 10 context switches; distinct = distinct (event-log hash, workload hash) pairs",
		Real: []string{"x/jsonrpc2 conn.go, serve.go (Dial, NewServer/run/Shutdown/Wait, newConnection, NewIdleListener/idleListener), frame.go (HeaderFramer), messages.go, wire.go, jsonrpc2.go compiled from the working tree", "real channels/select (polling order decided by the simulator), context, encoding/json, bufio"},
		Stubbed: []string{"sync.Mutex/WaitGroup/Once and sync/atomic (simulated / yield-wrapped)", "the byte transport (simnet pipe) and the listener", "application handlers, preempter and binder (harness)", "package time (stime: simulated clock; the idle listener's timer fires when nothing else can run or when the seeded scheduler lets the deadline pass first) and runtime.SetFinalizer (no-op inside a simulation)", "stdio and langserver are not exercised"},
		Assumptions: []string{"the harness uses the API legally (Respond exactly once per asynchronous request, Preempt never blocks)", "the standard library is that of go1.26.8"},
	})
	register(&spec{
		ID: "C38", Title: "JSON-RPC framing round-trips any message stream", Level: "exploration",
		Harness: []harnessCopy{{"c38", "x/jsonrpc2"}},
		TestPkg: "x/jsonrpc2", TestName: "TestZSimC38",
		QuickRuns: 4000, ThoroughRuns: 400000, QuickBudget: 4 * time.Minute, ThoroughBudget: 40 * time.Minute,
		Chunk: 250,
		Rule: "each run draws 1-7 messages (calls, notifications, responses with result, error or both; integer ids over the whole int64 range and string ids; method names with quotes, unicode, control characters; parameter JSON from a pool including kilobyte-sized values that cross bufio's buffer) and one of four modes: (0) write with the real framer, read back under three seeded chunkings, under EVERY single split position and with the stream cut at EVERY byte offset (EOF or an I/O error, alone or together with the last bytes); (1) the writer's stream fails at a seeded byte offset; one stream call fails part-way; the first stream call of one message's Write is refused with 0 bytes accepted and the message is or is not retried; an unencodable message in between; a second framer of the same process writing a message while a stream call of the first is in flight; contexts cancelled before a Read/Write and, for Read, at a seeded read of the underlying stream while the Read is in progress (then retried with a live context); (2) sixteen kinds of definitely malformed frame from an independent reference framer placed at a seeded position between valid frames; (3) seeded byte flips. Non-trivial = at least 2 judged sub-cases; distinct = distinct (sub-case hash, workload hash) pairs",
		Real: []string{"x/jsonrpc2/frame.go (HeaderFramer reader and writer), messages.go (EncodeMessage, DecodeMessage, NewCall, NewNotification, Response), wire.go compiled from the working tree (not instrumented: the code is sequential)", "bufio, encoding/json"},
		Stubbed: []string{"the byte streams (simulated io.Reader / io.Writer: chunk sizes, (0,nil) reads, data delivered together with the final error, failure at a byte offset)"},
		Assumptions: []string{"encoding/json (with UseNumber) decides JSON equality of params and results", "ids beyond +-2^53 are outside the default alphabet (decoding goes through float64)", "corrupted streams are only required to terminate without panic; absurd Content-Length values are capped at 64 KiB by the harness"},
		NoDeterminism: false,
	})
	register(&spec{
		ID: "C36", Title: "The import cache key changes exactly when package sources change", Level: "exploration",
		Instrument: map[string]simgen.Options{xgo + "/tool": {Sync: true, Conc: true, Maps: true, Files: []string{"imp.go"}, Swap: map[string]string{"time": simgen.SimrtPath + "/stime", "os": simgen.SimosPath, "runtime": simgen.SimrtPath + "/sruntime"}}},
		Harness: []harnessCopy{{"c36", "tool"}},
		TestPkg: "tool", TestName: "TestZSimC36",
		QuickRuns: 4000, ThoroughRuns: 400000, QuickBudget: 4 * time.Minute, ThoroughBudget: 40 * time.Minute,
		Chunk: 250,
		Rule: "each run draws a history of 4-29 (thorough: 4-60) operations on a module package directory — create, same-size rewrite, append, truncate, touch, rename, delete, mkdir, file in a sub-directory — over 10 compilable names (.go .xgo .gop .gox incl. dot-files, _test files, gop_autogen.go) and 10 irrelevant ones (underscore-prefixed, other extensions, backup suffixes), each stamped from a simulated clock that advances by 0, 1ns, sub-second, seconds, an hour or jumps backwards, truncated to a per-run mtime granularity (1ns, 1us, 1s, 2s); after every step PkgHash is recomputed and compared with the reference projection read back from the directory. 8% of the runs start with 16-65 further source files (half of them with ~100-byte names), 1% with 260-340. Further step kinds: ONE file is deleted, hidden, created or touched WHILE PkgHash runs, at a seeded point of its scan (the hash must equal the quiescent hash before or after); the hash is asked for while the listing fails with EIO or the directory has been moved away (not judged itself, the following hashes are). Non-trivial = at least 3 judged steps of which at least 1 changed the projection; distinct = distinct (step/hash log, workload hash) pairs",
		Real: []string{"tool/imp.go (NewImporter, Importer.PkgHash, dirHash, canCl) compiled from the working tree; it is sequential today, but it is instrumented and runs under the seeded scheduler so that goroutines, locks or map iteration added to it are decided by the simulator too", "goplus/mod module lookup, a real directory on tmpfs"},
		Stubbed: []string{"the clock that stamps files (os.Chtimes from a simulated clock with granularity knob)", "the history of file-system operations (generated)"},
		Assumptions: []string{"regular files only: no symlinks, devices, or names with control characters", "class-file extensions registered through go.mod are not exercised (the module registers none)", "only consecutive states are compared, as the statement says"},
	})
	c08pkgs := map[string]simgen.Options{}
	for _, p := range []string{"/cl", "/parser", "/ast", "/ast/fromgo", "/token", "/scanner", "/printer", "/cl/internal/typesalias"} {
		c08pkgs[xgo+p] = simgen.Options{Maps: true}
	}
	for _, p := range []string{"", "/internal", "/internal/go/printer", "/internal/go/format", "/typeutil", "/packages", "/packages/cache", "/internal/typeparams", "/internal/typesalias"} {
		c08pkgs["github.com/goplus/gogen"+p] = simgen.Options{Maps: true}
	}
	register(&spec{
		ID: "C08", Title: "Compilation output is deterministic", Level: "exploration",
		Instrument: c08pkgs,
		Harness:    []harnessCopy{{"c08", "zsim/c08"}},
		TestPkg:    "zsim/c08", TestName: "TestZSimC08",
		QuickRuns: 1200, ThoroughRuns: 100000, QuickBudget: 5 * time.Minute, ThoroughBudget: 45 * time.Minute,
		Chunk: 75,
		Prepare: func(sc *scratch, env []string) error {
			// gogen is part of the compile path: put a writable copy into the scratch tree
			out, err := run(sc.repo, env, "go1.26.8", "list", "-m", "-f", "{{.Dir}}", "github.com/goplus/gogen")
			if err != nil {
				return fmt.Errorf("locating gogen: %v\n%s", err, out)
			}
			src := strings.TrimSpace(out)
			dst := filepath.Join(sc.repo, "zdeps", "gogen")
			os.MkdirAll(filepath.Dir(dst), 0755)
			if out, err := run("/", nil, "cp", "-r", src, dst); err != nil {
				return fmt.Errorf("copying gogen: %v\n%s", err, out)
			}
			if out, err := run("/", nil, "chmod", "-R", "u+w", dst); err != nil {
				return fmt.Errorf("chmod: %v\n%s", err, out)
			}
			if out, err := run(sc.repo, env, "go1.26.8", "mod", "edit", "-replace=github.com/goplus/gogen=./zdeps/gogen"); err != nil {
				return fmt.Errorf("go mod edit: %v\n%s", err, out)
			}
			return nil
		},
		Rule: "each run takes a package — in 80% of runs a generated one (1-3 XGo files and 0-3 Go files holding 4-13 groups of mutually referring types, methods, functions, constants, variables and overload sets, plus 0-4 seeded errors: redeclarations across files, undefined names, type errors), otherwise one of the repository's class-file projects (cl/_testspx/*, alone or two combined), a generated class project, a package mixing work classes of two or three frameworks without their project files, or a package declaring a function named like a builtin while another package compiled in between uses the builtin — compiles it canonically (sorted listing, identity map orders, fresh importer and file set) and then 2-4 more times in the same process with a seeded permutation at every executed range-over-map site of the compile path (all sites, or a seeded quarter of them), a shuffled directory listing, and either a shared or a second importer/file set; in 40% of the runs another generated package is compiled in between; in a quarter of the runs with a Go file every build of the run gets a brand-new file set next to the shared importer and another revision of the same package (a same-length change of a Go file's result type) is built before and in between. Non-trivial = at least one non-identity permutation was actually consumed; distinct = distinct (listing/output log hash, workload hash) pairs",
		Real: []string{"parser.ParseFSDir, cl.NewPackage, gogen (Package.WriteTo) and everything below them, compiled from the working tree (gogen from the module cache copy) with range-over-map rewritten to go through detmap", "go/types, go/ast, go/printer"},
		Stubbed: []string{"map iteration order at every rewritten range site (seeded permutation of a canonically ordered key snapshot)", "the directory listing (in-memory file system with seeded order)"},
		Assumptions: []string{"range sites over maps whose keys have no address-free order (pointer keys) keep the runtime's order and are reported as uncontrolled", "packages whose files fail to PARSE are excluded (ParseFSDir documents that it returns the first error encountered)", "the standard library's own map iterations (go/types) are not controlled"},
	})
	register(&spec{
		ID: "C26", Title: "xgo fmt never loses a file at any crash point and keeps its mode", Level: "fault_enumeration",
		Instrument: map[string]simgen.Options{xgo + "/cmd/internal/gopfmt": {Sync: true, Conc: true, Maps: true, Swap: map[string]string{"os": simgen.SimosPath, "time": simgen.SimrtPath + "/stime", "runtime": simgen.SimrtPath + "/sruntime"}}},
		Harness:    []harnessCopy{{"c26", "cmd/internal/gopfmt"}},
		TestPkg:    "cmd/internal/gopfmt", TestName: "TestZSimC26",
		QuickRuns: 3000, ThoroughRuns: 300000, QuickBudget: 4 * time.Minute, ThoroughBudget: 40 * time.Minute,
		Chunk: 190,
		Post:  c26StraceFidelity,
		Rule: "each run draws a module directory with 1-5 files (.xgo/.gop/.go/.gox; unformatted, already formatted or syntactically invalid; modes 0644/0600/0664/0640/0755/0444; optionally in a sub-directory; ~12% symbolic links to sources outside the tree, a relative link next to a same-named file, and in a quarter of the runs neighbours whose names extend a source's name: further sources f.gox/f.gop and bystanders f.go~/f.go.orig that must survive untouched), the process umask, an invocation (file arguments, directory, dir/...) x (plain, --smart, --smart -mvgo, -t, -n) and whether one file-system operation fails (ENOSPC with a short write, EIO, EACCES, EMFILE, EPERM at a seeded operation). The expected formatted content of each file comes from a fault-free run of the same command with only that file present; then EVERY crash point of the judged run is evaluated (before the first mutating operation, after each one, and inside writes at a seeded split). In 60% of the runs with plain or --smart flags the process is then really killed at a seeded operation, in 70% of those one source takes over the content of a same-kind source next to it, and the command is run again: every file must hold what it had before the second run or its own formatted content. Non-trivial = the run rewrites at least one file; distinct = distinct (operation-log hash, workload hash) pairs",
		Real: []string{"cmd/internal/gopfmt/fmt.go (flag parsing, walker, gopfmt, writeFileWithBackup, report) compiled from the working tree", "the real formatter, parser and module loader", "a real directory on tmpfs: every operation is forwarded to the kernel"},
		Stubbed: []string{"package os as seen by fmt.go (simos: op log, crash-point hooks, error injection, os.Exit as a recoverable panic)", "process kill: modelled as 'completed system calls survive, nothing else happens' and evaluated by inspecting the directory at each point instead of killing and restarting"},
		Assumptions: []string{"process-crash model (SIGKILL), not power loss: no fsync/ordering semantics are assumed", "the formatter's output for a file is what an undisturbed run of the same command produces", "rename(2) over an existing file is atomic"},
	})
}

// c26StraceFidelity (thorough tier only) builds the real xgo binary from the
// scratch tree and kills it with SIGKILL at every file-system system call of a
// formatting run for a set of workloads (strace fault injection).
func c26StraceFidelity(sc *scratch, sp *spec, tier string, seed uint64) (map[string]interface{}, []string) {
	if tier != "thorough" && os.Getenv("VERIF_C26_STRACE") == "" {
		return nil, nil
	}
	if _, err := exec.LookPath("strace"); err != nil {
		return map[string]interface{}{"strace_fidelity": "skipped: strace not found"}, nil
	}
	bin := filepath.Join(sc.dir, "xgo-real")
	if out, err := run(sc.repo, goEnv(), "go1.26.8", "build", "-o", bin, "./cmd/xgo"); err != nil {
		infra("building cmd/xgo for the strace fidelity pass: %v\n%s", err, tail(out, 3000))
	}
	outFile := filepath.Join(sc.dir, "strace-out.json")
	cmd := exec.Command(sc.bin, "-test.run", "^TestZSimC26Strace$", "-test.timeout", "0")
	cmd.Dir = filepath.Join(sc.repo, sp.TestPkg)
	n := "48"
	if tier == "thorough" {
		n = "160"
	}
	cmd.Env = append(os.Environ(), "VERIF_XGO_BIN="+bin, "VERIF_STRACE_OUT="+outFile, "VERIF_SCRATCH="+sc.dir, "VERIF_STRACE_WORKLOADS="+n, fmt.Sprintf("VERIF_SEED=%d", seed))
	if out, err := cmd.CombinedOutput(); err != nil {
		infra("strace fidelity pass failed to run: %v\n%s", err, tail(string(out), 3000))
	}
	data, err := os.ReadFile(outFile)
	if err != nil {
		infra("strace fidelity pass wrote no result: %v", err)
	}
	var res struct {
		Workloads  int      `json:"workloads"`
		KillPoints int      `json:"kill_points"`
		Rewrites   int      `json:"files_rewritten_in_reference_runs"`
		Violations []string `json:"violations"`
		Trouble    []string `json:"trouble"`
		Sample     []string `json:"sample"`
	}
	if err := json.Unmarshal(data, &res); err != nil {
		infra("strace fidelity result: %v", err)
	}
	if len(res.Trouble) > 0 {
		infra("strace fidelity pass: %s", strings.Join(res.Trouble, "; "))
	}
	cov := map[string]interface{}{"strace_fidelity": map[string]interface{}{
		"what":        "the real xgo binary built from the tree, SIGKILLed on entry of its k-th file-system system call for every k (strace -e inject=...:signal=SIGKILL:when=k), judged by the same oracle",
		"workloads":   res.Workloads,
		"kill_points": res.KillPoints,
		"files_rewritten_in_reference_runs": res.Rewrites,
		"sample":      res.Sample,
	}}
	fmt.Printf("%s strace fidelity: %d workloads, %d SIGKILL points on the real binary, %d violations\n", sp.ID, res.Workloads, res.KillPoints, len(res.Violations))
	return cov, res.Violations
}
