// Command driver is the check runner: it takes a scratch copy of the
// repository's working tree, instruments it, builds the simulation binary,
// fans seeds out over the cores, minimises and replays violations, matches
// them against the known-findings file and writes the evidence file.
//
// Exit status: 0 the property held on everything explored (known findings
// are printed as KNOWN-FINDING lines); 1 a violation not listed in
// known_findings.txt (VIOLATION line); 2 infrastructure trouble.
package main

import (
	"bufio"
	"bytes"
	"encoding/binary"
	"encoding/json"
	"fmt"
	"os"
	"os/exec"
	"path/filepath"
	"runtime"
	"sort"
	"strconv"
	"strings"
	"sync"
	"time"

	"verif.local/simgen"
)

// verifDir is the directory the check script lives in (/verif, or a snapshot
// of it when started through `vp run`).
var verifDir = func() string {
	if d := os.Getenv("VERIF_DIR"); d != "" {
		return d
	}
	return "/verif"
}()

func goEnv() []string {
	env := os.Environ()
	env = append(env, "GOFLAGS=-mod=mod", "GOPROXY=off", "GOSUMDB=off", "GOTOOLCHAIN=local", "GONOSUMDB=*", "GONOSUMCHECK=1", "GOWORK=off", "CGO_ENABLED=0")
	return env
}

func infra(format string, a ...interface{}) {
	fmt.Printf("INFRA "+format+"\n", a...)
	for _, sc := range liveScratch { // os.Exit skips deferred clean-ups: leave no scratch tree behind
		sc.cleanup()
	}
	os.Exit(2)
}

var liveScratch []*scratch

func repoDir() string {
	if r := os.Getenv("VERIF_REPO"); r != "" {
		return r
	}
	return "/repo"
}

func jobs() int {
	if j, err := strconv.Atoi(os.Getenv("VERIF_JOBS")); err == nil && j > 0 {
		return j
	}
	return runtime.NumCPU()
}

func baseSeed() uint64 {
	if s, err := strconv.ParseUint(os.Getenv("VERIF_SEED"), 10, 64); err == nil {
		return s
	}
	return 1
}

func main() {
	if len(os.Args) < 2 {
		fmt.Println("usage: check <property> quick|thorough | replay <file> | selftest [ids] | list")
		os.Exit(2)
	}
	switch os.Args[1] {
	case "build":
		return
	case "list":
		for _, s := range specs {
			fmt.Println(s.ID, s.Title)
		}
		return
	case "replay":
		if len(os.Args) < 3 {
			infra("replay needs a file")
		}
		os.Exit(replayFile(os.Args[2]))
	case "selftest":
		os.Exit(selftest(os.Args[2:]))
	}
	id := strings.ToUpper(os.Args[1])
	sp := specs[id]
	if sp == nil {
		infra("unknown property %q", id)
	}
	tier := "quick"
	if len(os.Args) > 2 {
		tier = os.Args[2]
	}
	if t := os.Getenv("VERIF_TIER"); t != "" && len(os.Args) <= 2 {
		tier = t
	}
	if tier != "quick" && tier != "thorough" {
		infra("unknown tier %q", tier)
	}
	os.Exit(runCheck(sp, tier))
}

// ---------------------------------------------------------------------------

type scratch struct {
	dir  string // scratch root
	repo string // copy of the repository
	bin  string // test binary
	gen  map[string]*simgen.Stats
}

func (s *scratch) cleanup() {
	if s != nil && s.dir != "" && os.Getenv("VERIF_KEEP") == "" {
		os.RemoveAll(s.dir)
	}
}

func mkScratch(id string) *scratch {
	base := "/dev/shm"
	if st, err := os.Stat(base); err != nil || !st.IsDir() {
		base = "/var/tmp"
	}
	dir, err := os.MkdirTemp(base, "verif-"+id+"-")
	if err != nil {
		infra("mktemp: %v", err)
	}
	sc := &scratch{dir: dir, repo: filepath.Join(dir, "repo")}
	liveScratch = append(liveScratch, sc)
	return sc
}

func run(dir string, env []string, name string, args ...string) (string, error) {
	cmd := exec.Command(name, args...)
	cmd.Dir = dir
	cmd.Env = env
	out, err := cmd.CombinedOutput()
	return string(out), err
}

// prepare copies the working tree, instruments it and builds the test binary.
func prepare(sp *spec) *scratch {
	sc := mkScratch(sp.ID)
	if out, err := run("/", nil, "rsync", "-a", "--exclude", ".git", "--exclude", "zsim", repoDir()+"/", sc.repo+"/"); err != nil {
		sc.cleanup()
		infra("copying %s: %v\n%s", repoDir(), err, out)
	}
	// runtime + harness
	os.MkdirAll(filepath.Join(sc.repo, "zsim"), 0755)
	if out, err := run("/", nil, "rsync", "-a", "--exclude", "*_test.go", filepath.Join(verifDir, "simrt")+"/", filepath.Join(sc.repo, "zsim", "simrt")+"/"); err != nil {
		sc.cleanup()
		infra("copying simrt: %v\n%s", err, out)
	}
	env := goEnv()
	if sp.Prepare != nil {
		if err := sp.Prepare(sc, env); err != nil {
			sc.cleanup()
			infra("prepare: %v", err)
		}
	}
	// Type parameters instantiated with interface-holding key types (detmap over
	// map[ID]...) need language version 1.20; nothing else changes between 1.18
	// and 1.20 (loop variable semantics change only at 1.22).
	if out, err := run(sc.repo, env, "go1.26.8", "mod", "edit", "-go=1.20"); err != nil {
		sc.cleanup()
		infra("go mod edit: %v\n%s", err, out)
	}
	if sp.Porcupine {
		if out, err := run(sc.repo, env, "go1.26.8", "mod", "edit", "-require=github.com/anishathalye/porcupine@v1.3.0"); err != nil {
			sc.cleanup()
			infra("go mod edit: %v\n%s", err, out)
		}
	}
	g := &simgen.Gen{Root: sc.repo, GoBin: "go1.26.8", Env: env}
	if len(sp.Instrument) > 0 {
		st, err := g.Instrument(sc.repo, sp.Instrument)
		if err != nil {
			sc.cleanup()
			infra("%v", err)
		}
		sc.gen = st
	}
	for _, h := range sp.Harness {
		src := filepath.Join(verifDir, "harness", h.Dir)
		ents, err := os.ReadDir(src)
		if err != nil {
			sc.cleanup()
			infra("harness dir: %v", err)
		}
		for _, e := range ents {
			if e.IsDir() {
				continue
			}
			data, err := os.ReadFile(filepath.Join(src, e.Name()))
			if err != nil {
				sc.cleanup()
				infra("%v", err)
			}
			os.MkdirAll(filepath.Join(sc.repo, h.Dest), 0755)
			if err := os.WriteFile(filepath.Join(sc.repo, h.Dest, e.Name()), data, 0644); err != nil {
				sc.cleanup()
				infra("%v", err)
			}
		}
	}
	sc.bin = filepath.Join(sc.dir, "sim.test")
	args := []string{"test", "-c", "-vet=off", "-o", sc.bin}
	if sp.Cover != "" {
		args = append(args, "-cover", "-coverpkg="+sp.Cover)
	}
	args = append(args, "./"+sp.TestPkg)
	if out, err := run(sc.repo, env, "go1.26.8", args...); err != nil {
		keep := os.Getenv("VERIF_KEEP") != ""
		if !keep {
			sc.cleanup()
		}
		infra("building the simulation binary failed (the tree does not compile under instrumentation, or a harness is out of date):\n%s", out)
	}
	return sc
}

// ---------------------------------------------------------------------------

type job struct {
	Property string         `json:"property"`
	Mode     string         `json:"mode"`
	Tier     string         `json:"tier"`
	Seed     uint64         `json:"seed"`
	From     int            `json:"from"`
	To       int            `json:"to"`
	MaxSteps int            `json:"max_steps"`
	Out      string         `json:"out"`
	Hashes   string         `json:"hashes"`
	Replay   *caseT         `json:"replay,omitempty"`
	Budget   int            `json:"budget"`
	Deadline int64          `json:"deadline"`
	Samples  int            `json:"samples"`
	Knobs    map[string]int `json:"knobs,omitempty"`
}

type caseT struct {
	Property     string          `json:"property"`
	Engine       string          `json:"engine"`
	Seed         uint64          `json:"seed"`
	Index        int             `json:"index"`
	Plan         []int           `json:"plan"`
	Sched        []int           `json:"sched"`
	Class        string          `json:"class"`
	Fingerprint  string          `json:"fingerprint"`
	Msg          string          `json:"msg"`
	EventHash    string          `json:"event_log_hash"`
	Workload     json.RawMessage `json:"workload,omitempty"`
	Schedule     []string        `json:"schedule,omitempty"`
	Blocked      []string        `json:"blocked,omitempty"`
	MaxSteps     int             `json:"max_steps"`
	Minimised    bool            `json:"minimised"`
	ShrinkRuns   int             `json:"shrink_runs,omitempty"`
	OrigPlanLen  int             `json:"orig_plan_len,omitempty"`
	OrigSchedLen int             `json:"orig_sched_len,omitempty"`
	Tier         string          `json:"tier,omitempty"`
	Knobs        map[string]int  `json:"knobs,omitempty"`
	// A failure that depends on what earlier runs left behind in the process is
	// replayed as a SEQUENCE: runs SeqFrom..Index of the seed range BaseSeed, in
	// one fresh process; the violation must recur at run Index.
	// A run during which the code under test brought the whole process down
	// with an unrecoverable runtime error (out of memory, stack overflow):
	// replayed as run Index of the seed range BaseSeed alone in a fresh process,
	// which must die the same way.
	Fatal    bool   `json:"fatal,omitempty"`
	Sequence bool   `json:"sequence,omitempty"`
	SeqFrom  int    `json:"sequence_from,omitempty"`
	BaseSeed uint64 `json:"base_seed,omitempty"`
}

type summary struct {
	Runs         int            `json:"runs"`
	Nontrivial   int            `json:"nontrivial"`
	Violations   int            `json:"violations"`
	Inconclusive int            `json:"inconclusive"`
	Steps        int64          `json:"steps"`
	Switches     int64          `json:"switches"`
	Goroutines   int64          `json:"goroutines"`
	Faults       map[string]int `json:"faults"`
	Probes       map[string]int `json:"probes"`
	Strategies   map[string]int `json:"strategies"`
	States       []uint64       `json:"states"`
	Extra        map[string]int `json:"extra"`
	WallMS       int64          `json:"wall_ms"`
	MaxStepsRun  int            `json:"max_steps_in_a_run"`
	SimNanos     int64          `json:"sim_nanos"`
	TimersFired  int64          `json:"timers_fired"`
}

type record struct {
	Kind    string   `json:"kind"`
	Case    *caseT   `json:"case,omitempty"`
	Summary *summary `json:"summary,omitempty"`
}

// postCoverage carries the result of a spec's Post step into the evidence.
var postCoverage map[string]interface{}

// worker runs the test binary on one job and returns its records.
func worker(sc *scratch, sp *spec, j *job, tag string, timeout time.Duration) ([]record, error) {
	jf := filepath.Join(sc.dir, "job-"+tag+".json")
	j.Out = filepath.Join(sc.dir, "out-"+tag+".jsonl")
	if j.Mode == "gen" {
		j.Hashes = filepath.Join(sc.dir, "hashes-"+tag+".bin")
	}
	data, _ := json.Marshal(j)
	if err := os.WriteFile(jf, data, 0644); err != nil {
		return nil, err
	}
	defer os.Remove(jf)
	defer os.Remove(j.Out)
	cmd := exec.Command(sc.bin, "-test.run", "^"+sp.TestName+"$", "-test.timeout", "0", "-test.cpu", "1")
	cmd.Dir = filepath.Join(sc.repo, sp.TestPkg)
	cmd.Env = append(os.Environ(), "VERIF_JOB="+jf, "VERIF_SCRATCH="+sc.dir, "GOMAXPROCS="+gomaxprocs(), "GODEBUG=asynctimerchan=0")
	var buf bytes.Buffer
	cmd.Stdout, cmd.Stderr = &buf, &buf
	if err := cmd.Start(); err != nil {
		return nil, err
	}
	done := make(chan error, 1)
	go func() { done <- cmd.Wait() }()
	var werr error
	select {
	case werr = <-done:
	case <-time.After(timeout):
		cmd.Process.Signal(os.Interrupt)
		time.Sleep(500 * time.Millisecond)
		cmd.Process.Kill()
		<-done
		return nil, fmt.Errorf("worker %s exceeded its watchdog of %v\n%s", tag, timeout, tail(buf.String(), 4000))
	}
	if werr != nil {
		return nil, fmt.Errorf("worker %s failed: %v\n%s\n[...]\n%s", tag, werr, headOf(buf.String(), 9000), tail(buf.String(), 4000))
	}
	f, err := os.Open(j.Out)
	if err != nil {
		return nil, fmt.Errorf("worker %s wrote no output: %v\n%s", tag, err, tail(buf.String(), 3000))
	}
	defer f.Close()
	var recs []record
	rd := bufio.NewReaderSize(f, 1<<20)
	dec := json.NewDecoder(rd)
	for dec.More() {
		var r record
		if err := dec.Decode(&r); err != nil {
			return nil, fmt.Errorf("worker %s output: %v", tag, err)
		}
		recs = append(recs, r)
	}
	return recs, nil
}

func gomaxprocs() string {
	if g := os.Getenv("VERIF_GOMAXPROCS"); g != "" {
		return g
	}
	return "2"
}

func tail(s string, n int) string {
	if len(s) > n {
		return "…" + s[len(s)-n:]
	}
	return s
}

// ---------------------------------------------------------------------------

type totals struct {
	sum       summary
	states    map[uint64]struct{}
	hashes    map[uint64]struct{}
	viol      []*caseT
	samples   []*caseT
	workerErr error
	failFrom, failTo int // seed-range of the chunk whose worker died
}

func (t *totals) add(recs []record) {
	for _, r := range recs {
		switch r.Kind {
		case "violation":
			t.viol = append(t.viol, r.Case)
		case "sample":
			if len(t.samples) < 4 {
				t.samples = append(t.samples, r.Case)
			}
		case "summary":
			s := r.Summary
			t.sum.Runs += s.Runs
			t.sum.Nontrivial += s.Nontrivial
			t.sum.Violations += s.Violations
			t.sum.Inconclusive += s.Inconclusive
			t.sum.Steps += s.Steps
			t.sum.Switches += s.Switches
			t.sum.Goroutines += s.Goroutines
			t.sum.SimNanos += s.SimNanos
			t.sum.TimersFired += s.TimersFired
			if s.MaxStepsRun > t.sum.MaxStepsRun {
				t.sum.MaxStepsRun = s.MaxStepsRun
			}
			addMap(&t.sum.Faults, s.Faults)
			addMap(&t.sum.Probes, s.Probes)
			addMap(&t.sum.Strategies, s.Strategies)
			addMap(&t.sum.Extra, s.Extra)
			for _, st := range s.States {
				t.states[st] = struct{}{}
			}
		}
	}
}

func addMap(dst *map[string]int, src map[string]int) {
	if *dst == nil {
		*dst = map[string]int{}
	}
	for k, v := range src {
		(*dst)[k] += v
	}
}

func (t *totals) addHashes(path string) {
	data, err := os.ReadFile(path)
	if err != nil {
		return
	}
	for i := 0; i+8 <= len(data); i += 8 {
		t.hashes[binary.LittleEndian.Uint64(data[i:])] = struct{}{}
	}
	os.Remove(path)
}

// explore fans the seed range out over worker processes.
// envKnobs parses VERIF_KNOBS="name=1,other=0" (harness configuration overrides for experiments).
func envKnobs() map[string]int {
	v := os.Getenv("VERIF_KNOBS")
	if v == "" {
		return nil
	}
	m := map[string]int{}
	for _, kv := range strings.Split(v, ",") {
		if i := strings.IndexByte(kv, '='); i > 0 {
			n, _ := strconv.Atoi(kv[i+1:])
			m[kv[:i]] = n
		}
	}
	return m
}

func explore(sc *scratch, sp *spec, tier string, seed uint64, runs, chunk int, deadline time.Time, knobs map[string]int) *totals {
	t := &totals{states: map[uint64]struct{}{}, hashes: map[uint64]struct{}{}}
	type chunkT struct{ from, to, n int }
	var chunks []chunkT
	for from, n := 0, 0; from < runs; from, n = from+chunk, n+1 {
		to := from + chunk
		if to > runs {
			to = runs
		}
		chunks = append(chunks, chunkT{from, to, n})
	}
	var mu sync.Mutex
	next := 0
	var wg sync.WaitGroup
	nw := jobs()
	if nw > len(chunks) {
		nw = len(chunks)
	}
	for w := 0; w < nw; w++ {
		wg.Add(1)
		go func() {
			defer wg.Done()
			for {
				mu.Lock()
				if next >= len(chunks) || t.workerErr != nil || time.Now().After(deadline) {
					mu.Unlock()
					return
				}
				c := chunks[next]
				next++
				mu.Unlock()
				samples := 0
				if c.n < 4 {
					samples = 1
				}
				j := &job{Property: sp.ID, Mode: "gen", Tier: tier, Seed: seed, From: c.from, To: c.to, MaxSteps: sp.maxSteps(tier),
					Deadline: deadline.Unix(), Samples: samples, Knobs: knobs}
				tag := fmt.Sprintf("g%d", c.n)
				recs, err := worker(sc, sp, j, tag, time.Until(deadline)+sp.watchdog())
				mu.Lock()
				if err != nil {
					if t.workerErr == nil {
						t.workerErr = err
						t.failFrom, t.failTo = c.from, c.to
					}
				} else {
					t.add(recs)
					t.addHashes(j.Hashes)
				}
				mu.Unlock()
			}
		}()
	}
	wg.Wait()
	return t
}

// ---------------------------------------------------------------------------

type finding struct {
	kind, property, fingerprint, text string
}

func loadFindings() []finding {
	var out []finding
	data, err := os.ReadFile(filepath.Join(verifDir, "known_findings.txt"))
	if err != nil {
		return nil
	}
	for _, line := range strings.Split(string(data), "\n") {
		line = strings.TrimSpace(line)
		if line == "" || strings.HasPrefix(line, "#") {
			continue
		}
		var f finding
		switch {
		case strings.HasPrefix(line, "finding:"):
			f.kind = "finding"
			line = strings.TrimSpace(strings.TrimPrefix(line, "finding:"))
		case strings.HasPrefix(line, "fixed:"):
			f.kind = "fixed"
			line = strings.TrimSpace(strings.TrimPrefix(line, "fixed:"))
		default:
			continue
		}
		if !strings.HasPrefix(line, "property=") {
			continue
		}
		sp := strings.IndexByte(line, ' ')
		if sp < 0 {
			continue
		}
		f.property = strings.TrimPrefix(line[:sp], "property=")
		rest := strings.TrimSpace(line[sp:])
		if strings.HasPrefix(rest, `fingerprint="`) {
			rest = rest[len(`fingerprint="`):]
			if q := strings.Index(rest, `"`); q >= 0 {
				f.fingerprint = rest[:q]
				rest = strings.TrimSpace(rest[q+1:])
			}
		}
		f.text = rest
		out = append(out, f)
	}
	return out
}

func matchFinding(fs []finding, property, fingerprint string) *finding {
	for i := range fs {
		if fs[i].kind == "finding" && fs[i].property == property && fs[i].fingerprint != "" && fs[i].fingerprint == fingerprint {
			return &fs[i]
		}
	}
	return nil
}

// ---------------------------------------------------------------------------

func runCheck(sp *spec, tier string) int {
	start := time.Now()
	seed := baseSeed()
	currentBaseSeed = seed
	if sp.Custom != nil {
		return sp.Custom(sp, tier, seed)
	}
	sc := prepare(sp)
	defer sc.cleanup()
	buildS := time.Since(start).Seconds()
	runs, budget := sp.QuickRuns, sp.QuickBudget
	if tier == "thorough" {
		runs, budget = sp.ThoroughRuns, sp.ThoroughBudget
	}
	if v, err := strconv.Atoi(os.Getenv("VERIF_RUNS")); err == nil && v > 0 {
		runs = v
	}
	deadline := time.Now().Add(budget)
	exploreStart := time.Now()
	t := explore(sc, sp, tier, seed, runs, sp.chunk(), deadline, envKnobs())
	exploreS := time.Since(exploreStart).Seconds()
	if t.workerErr != nil {
		if c := localiseFatal(sc, sp, tier, seed, t); c != nil {
			path := filepath.Join(verifDir, "replays", fmt.Sprintf("%s-%s.json", sp.ID, shortHash(c.Fingerprint)))
			writeJSON(path, c)
			fmt.Printf("VIOLATION property=%s replay=%s\n  class: %s\n  fingerprint: %s\n  seed=%d run=%d (a fresh process executing this run alone dies the same way, twice)\n  %s\n",
				sp.ID, path, c.Class, c.Fingerprint, seed, c.Index, indent(c.Msg))
			return 1
		}
		infra("%v", t.workerErr)
	}
	if t.sum.Runs == 0 {
		infra("no run was executed")
	}
	// determinism sample: re-execute the first seeds in fresh processes at other GOMAXPROCS
	detOK, detN := determinismSample(sc, sp, tier, seed, t)
	if !detOK {
		infra("determinism self-check failed: identical seeds produced different event logs")
	}
	// violations: group by fingerprint, shrink, confirm, classify
	known := loadFindings()
	exit := 0
	var knownHit []string
	var reported []string
	groups := map[string]*caseT{}
	var order []string
	more := map[string][]*caseT{} // further failing runs with the same fingerprint
	for _, v := range t.viol {
		if _, ok := groups[v.Fingerprint]; !ok {
			groups[v.Fingerprint] = v
			order = append(order, v.Fingerprint)
		} else if len(more[v.Fingerprint]) < 12 {
			more[v.Fingerprint] = append(more[v.Fingerprint], v)
		}
	}
	sort.Strings(order)
	if len(order) > 6 {
		order = order[:6]
	}
	os.MkdirAll(filepath.Join(verifDir, "replays"), 0755)
	seenMin := map[string]bool{}
	var unreplayed []string
	for _, fp := range order {
		v := groups[fp]
		v.Tier = tier
		min, err := minimise(sc, sp, tier, v)
		if err != nil {
			infra("minimising %q: %v", fp, err)
		}
		// A run may fail only because of what EARLIER runs of its worker left
		// behind in the process; another run of the same group may be
		// self-contained. Try a few before giving the group up.
		for _, alt := range more[fp] {
			if min.Class != "unreproducible" {
				break
			}
			alt.Tier = tier
			if m2, err := minimise(sc, sp, tier, alt); err == nil && m2.Class != "unreproducible" {
				v, min = alt, m2
			}
		}
		if min.Class == "unreproducible" {
			// The run failed inside a worker that had executed other runs before it,
			// but not when replayed on its own: either state leaks from one run to
			// the next inside the code under test, or the harness is not
			// deterministic. Never reported as a violation of its own.
			unreplayed = append(unreplayed, fmt.Sprintf("%q (seed %d, run %d): %s", fp, v.Seed, v.Index, min.Msg))
			continue
		}
		min.Tier = tier
		if min.Class == "harness" {
			// the harness could not set up or observe the run: trouble, not a verdict
			unreplayed = append(unreplayed, "harness trouble: "+min.Msg)
			continue
		}
		if seenMin[min.Fingerprint] {
			continue
		}
		seenMin[min.Fingerprint] = true
		path := filepath.Join(verifDir, "replays", fmt.Sprintf("%s-%s.json", sp.ID, shortHash(min.Fingerprint)))
		writeJSON(path, min)
		if f := matchFinding(known, sp.ID, min.Fingerprint); f != nil {
			fmt.Printf("KNOWN-FINDING: property=%s %s [fingerprint=%q replay=%s]\n", sp.ID, f.text, min.Fingerprint, path)
			knownHit = append(knownHit, min.Fingerprint)
			continue
		}
		fmt.Printf("VIOLATION property=%s replay=%s\n", sp.ID, path)
		fmt.Printf("  class: %s\n  fingerprint: %s\n  seed=%d run=%d plan=%d choices, schedule=%d choices (from %d/%d), %d shrink runs\n  %s\n",
			min.Class, min.Fingerprint, min.Seed, min.Index, len(min.Plan), len(min.Sched), min.OrigPlanLen, min.OrigSchedLen, min.ShrinkRuns, indent(min.Msg))
		reported = append(reported, min.Fingerprint)
		exit = 1
	}
	var post map[string]interface{}
	if sp.Post != nil {
		var pviol []string
		post, pviol = sp.Post(sc, sp, tier, seed)
		if len(pviol) > 3 {
			fmt.Printf("(%d violations found by the post step; reporting the first 3)\n", len(pviol))
			pviol = pviol[:3]
		}
		for i, v := range pviol {
			path := filepath.Join(verifDir, "replays", fmt.Sprintf("%s-post-%d.json", sp.ID, i))
			writeJSON(path, map[string]interface{}{"property": sp.ID, "class": "post-check", "msg": v, "seed": seed})
			fmt.Printf("VIOLATION property=%s replay=%s\n  %s\n", sp.ID, path, v)
			reported = append(reported, v)
			exit = 1
		}
	}
	postCoverage = post
	for _, u := range unreplayed {
		fmt.Printf("NOT-REPLAYED %s\n", u)
	}
	if len(unreplayed) > 0 && exit == 0 && len(knownHit) == 0 {
		infra("%d failing runs did not reproduce when replayed alone and no replayable violation was found", len(unreplayed))
	}
	writeEvidence(sp, tier, seed, t, sc, start, buildS, exploreS, detN, knownHit, reported)
	fmt.Printf("%s %s: %d runs (%d distinct non-trivial), %d steps, %d inconclusive, %d violating runs in %d groups, %.0fs\n",
		sp.ID, tier, t.sum.Runs, len(t.hashes), t.sum.Steps, t.sum.Inconclusive, t.sum.Violations, len(order), time.Since(start).Seconds())
	return exit
}

// headOf returns the first n bytes of s (where a crashing worker names the reason).
func headOf(s string, n int) string {
	// skip the harmless chatter of the command under test
	if i := strings.Index(s, "panic:"); i >= 0 {
		s = s[i:]
	} else if i := strings.Index(s, "fatal error:"); i >= 0 {
		s = s[i:]
	}
	if len(s) > n {
		s = s[:n]
	}
	return s
}

func indent(s string) string {
	if len(s) > 3000 {
		s = s[:3000] + "…"
	}
	return strings.ReplaceAll(s, "\n", "\n  ")
}

func shortHash(s string) string {
	h := uint64(14695981039346656037)
	for i := 0; i < len(s); i++ {
		h = (h ^ uint64(s[i])) * 1099511628211
	}
	return fmt.Sprintf("%012x", h&0xffffffffffff)
}

func writeJSON(path string, v interface{}) {
	data, _ := json.MarshalIndent(v, "", " ")
	if err := os.WriteFile(path, append(data, '\n'), 0644); err != nil {
		infra("writing %s: %v", path, err)
	}
}

// minimise shrinks a violation in one worker process and confirms the result
// by replaying it in a fresh process: same class and same event-log hash.
func minimise(sc *scratch, sp *spec, tier string, v *caseT) (*caseT, error) {
	j := &job{Property: sp.ID, Mode: "shrink", Tier: tier, MaxSteps: v.MaxSteps, Replay: v, Budget: sp.shrinkBudget(tier), Knobs: v.Knobs}
	recs, err := worker(sc, sp, j, "shrink-"+shortHash(v.Fingerprint), 20*time.Minute)
	if err != nil {
		return nil, err
	}
	var min *caseT
	for _, r := range recs {
		if r.Kind == "violation" {
			min = r.Case
		}
	}
	if min == nil {
		return nil, fmt.Errorf("shrink worker returned nothing")
	}
	if min.Class == "unreproducible" {
		// The shrinker re-executes candidates inside ONE process. A failure that
		// depends on state the code under test keeps from one execution to the
		// next (a process-wide cache, say) shows on the first execution only, so
		// minimisation is impossible — but the run itself may well be exactly
		// reproducible in a fresh process, which is what a replay is. Try that,
		// twice, with the unminimised case.
		a, err1 := replayCase(sc, sp, tier, v)
		b, err2 := replayCase(sc, sp, tier, v)
		if err1 == nil && err2 == nil && a.Class == v.Class && b.Class == v.Class && a.EventHash == b.EventHash && a.Fingerprint == b.Fingerprint {
			a.Tier = tier
			a.Knobs = v.Knobs
			a.OrigPlanLen, a.OrigSchedLen = len(v.Plan), len(v.Sched)
			a.Msg = "(not minimised: the failure shows only on the first execution in a process, so every replay needs a fresh process — which `./check replay` is)\n" + a.Msg
			return a, nil
		}
		if seq := sequenceCase(sc, sp, tier, v); seq != nil {
			return seq, nil
		}
		return min, nil
	}
	rep, err := replayCase(sc, sp, tier, min)
	if err != nil {
		return nil, err
	}
	if rep.Class != min.Class || rep.EventHash != min.EventHash {
		min.Class = "unreproducible"
		min.Msg = fmt.Sprintf("fresh-process replay differs: class %q hash %s vs minimised class %q hash %s", rep.Class, rep.EventHash, min.Class, min.EventHash)
	}
	return min, nil
}

// sequenceCase handles a run that fails only after other runs in the same
// process (the code under test keeps state from one execution to the next):
// the runs of its worker chunk from some start up to it are re-executed in a
// fresh process; if the violation recurs at the same run, twice, identically,
// the shortest such sequence found is the replay.
func sequenceCase(sc *scratch, sp *spec, tier string, v *caseT) *caseT {
	chunk := sp.chunk()
	start := v.Index - v.Index%chunk
	try := func(from int) *caseT {
		j := &job{Property: sp.ID, Mode: "gen", Tier: tier, Seed: currentBaseSeed, From: from, To: v.Index + 1, MaxSteps: v.MaxSteps, Knobs: v.Knobs}
		recs, err := worker(sc, sp, j, fmt.Sprintf("seq-%d-%d", from, v.Index), 20*time.Minute)
		if err != nil {
			return nil
		}
		for _, r := range recs {
			if r.Kind == "violation" && r.Case != nil && r.Case.Index == v.Index && r.Case.Fingerprint == v.Fingerprint {
				return r.Case
			}
		}
		return nil
	}
	if v.Index == start || try(start) == nil {
		return nil
	}
	best := start
	for back := 1; v.Index-back > start; back *= 2 {
		if try(v.Index-back) != nil {
			best = v.Index - back
			break
		}
	}
	a, b := try(best), try(best)
	if a == nil || b == nil || a.EventHash != b.EventHash {
		return nil
	}
	a.Tier, a.Knobs = tier, v.Knobs
	a.Sequence, a.SeqFrom, a.BaseSeed = true, best, currentBaseSeed
	a.OrigPlanLen, a.OrigSchedLen = len(v.Plan), len(v.Sched)
	a.Msg = fmt.Sprintf("(the run fails only after other runs in the same process: the code under test keeps state across executions. Replay = runs %d..%d of seed range %d in one fresh process; the violation recurs at run %d)\n%s", best, v.Index, currentBaseSeed, v.Index, a.Msg)
	return a
}

var currentBaseSeed uint64

func replayCase(sc *scratch, sp *spec, tier string, c *caseT) (*caseT, error) {
	if c.Fatal {
		j := &job{Property: sp.ID, Mode: "gen", Tier: tier, Seed: c.BaseSeed, From: c.Index, To: c.Index + 1, MaxSteps: c.MaxSteps, Knobs: c.Knobs}
		_, err := worker(sc, sp, j, fmt.Sprintf("fatalreplay-%d", c.Index), 20*time.Minute)
		if what, frame := fatalInCode(err); what != "" {
			return &caseT{Property: c.Property, Class: "fatal-error", Fingerprint: "fatal-error " + what + " in " + frame, EventHash: "fatal:" + what,
				Msg: "the process died with the unrecoverable runtime error \"" + what + "\" in " + frame}, nil
		}
		return &caseT{Property: c.Property, EventHash: "(run " + fmt.Sprint(c.Index) + " did not bring the process down)"}, nil
	}
	if c.Sequence {
		j := &job{Property: sp.ID, Mode: "gen", Tier: tier, Seed: c.BaseSeed, From: c.SeqFrom, To: c.Index + 1, MaxSteps: c.MaxSteps, Knobs: c.Knobs}
		recs, err := worker(sc, sp, j, fmt.Sprintf("seqreplay-%d-%d", c.SeqFrom, c.Index), 20*time.Minute)
		if err != nil {
			return nil, err
		}
		for _, r := range recs {
			if r.Kind == "violation" && r.Case != nil && r.Case.Index == c.Index {
				return r.Case, nil
			}
		}
		return &caseT{Property: c.Property, EventHash: "(no violation at run " + fmt.Sprint(c.Index) + ")"}, nil
	}
	j := &job{Property: sp.ID, Mode: "replay", Tier: tier, MaxSteps: c.MaxSteps, Replay: c, Knobs: c.Knobs}
	recs, err := worker(sc, sp, j, "replay-"+shortHash(c.Fingerprint+c.EventHash), 10*time.Minute)
	if err != nil {
		return nil, err
	}
	for _, r := range recs {
		if r.Kind == "replayed" {
			return r.Case, nil
		}
	}
	return nil, fmt.Errorf("replay worker returned nothing")
}

// determinismSample re-runs a prefix of the seed range in fresh processes at
// different GOMAXPROCS values and at a different position in the worker's
// sequence, and compares aggregate event-hash sets.
func determinismSample(sc *scratch, sp *spec, tier string, seed uint64, t *totals) (bool, int) {
	if sp.NoDeterminism {
		return true, 0
	}
	n := 48
	if tier == "thorough" {
		n = 600
	}
	if n > t.sum.Runs {
		n = t.sum.Runs
	}
	var sets [][]uint64
	for i, gmp := range []string{"1", "4", "16"} {
		os.Setenv("VERIF_GOMAXPROCS", gmp)
		j := &job{Property: sp.ID, Mode: "gen", Tier: tier, Seed: seed, From: 0, To: n, MaxSteps: sp.maxSteps(tier), Knobs: envKnobs()}
		_, err := worker(sc, sp, j, fmt.Sprintf("det%d", i), 10*time.Minute)
		if err != nil {
			os.Unsetenv("VERIF_GOMAXPROCS")
			infra("determinism sample: %v", err)
		}
		data, _ := os.ReadFile(j.Hashes)
		os.Remove(j.Hashes)
		var hs []uint64
		for k := 0; k+8 <= len(data); k += 8 {
			hs = append(hs, binary.LittleEndian.Uint64(data[k:]))
		}
		sets = append(sets, hs)
	}
	os.Unsetenv("VERIF_GOMAXPROCS")
	for i := 1; i < len(sets); i++ {
		if len(sets[i]) != len(sets[0]) {
			fmt.Printf("determinism: %d vs %d non-trivial runs\n", len(sets[i]), len(sets[0]))
			return false, n
		}
		for k := range sets[0] {
			if sets[i][k] != sets[0][k] {
				fmt.Printf("determinism: run #%d of the non-trivial runs differs between GOMAXPROCS settings\n", k)
				return false, n
			}
		}
	}
	// and every one of them must be among the hashes of the main exploration
	for _, h := range sets[0] {
		if _, ok := t.hashes[h]; !ok {
			fmt.Printf("determinism: a re-executed run is not among the explored runs\n")
			return false, n
		}
	}
	return true, n * 3
}

// ---------------------------------------------------------------------------

func writeEvidence(sp *spec, tier string, seed uint64, t *totals, sc *scratch, start time.Time, buildS, exploreS float64, detN int, knownHit, reported []string) {
	cov := map[string]interface{}{}
	cov["evaluations"] = t.sum.Runs
	cov["distinct_nontrivial"] = len(t.hashes)
	cov["rule"] = sp.Rule
	var samples []interface{}
	for _, s := range t.samples {
		samples = append(samples, map[string]interface{}{"seed": s.Seed, "run": s.Index, "workload": s.Workload, "schedule_excerpt": s.Schedule, "left_blocked": s.Blocked})
	}
	if len(samples) == 0 {
		samples = append(samples, "no sample recorded")
	}
	cov["samples"] = samples
	cov["runs_nontrivial_total"] = t.sum.Nontrivial
	cov["scheduler_steps_total"] = t.sum.Steps
	cov["context_switches_total"] = t.sum.Switches
	cov["simulated_goroutines_total"] = t.sum.Goroutines
	if t.sum.TimersFired > 0 {
		cov["simulated_time"] = fmt.Sprintf("%d scheduler steps; %d simulated timers fired, simulated clocks advanced by %.1f s in total (discrete-event time: the clock jumps when a timer fires)", t.sum.Steps, t.sum.TimersFired, float64(t.sum.SimNanos)/1e9)
	} else {
		cov["simulated_time"] = fmt.Sprintf("%d scheduler steps (logical clock; the exercised code has no timers)", t.sum.Steps)
	}
	cov["max_steps_in_a_run"] = t.sum.MaxStepsRun
	cov["inconclusive_runs"] = t.sum.Inconclusive
	cov["abstract_states_reached"] = len(t.states)
	cov["faults_fired"] = t.sum.Faults
	cov["probes"] = t.sum.Probes
	cov["strategies"] = t.sum.Strategies
	cov["extra"] = t.sum.Extra
	if exploreS > 0 {
		cov["runs_per_hour"] = int(float64(t.sum.Runs) / exploreS * 3600)
	}
	cov["seeds"] = fmt.Sprintf("VERIF_SEED=%d, run indices 0..%d (per-run seed = mix(VERIF_SEED, index))", seed, t.sum.Runs-1)
	cov["determinism_reexecutions"] = detN
	cov["build_seconds"] = buildS
	cov["real_components"] = sp.Real
	cov["stubbed_components"] = sp.Stubbed
	cov["toolchain"] = "go1.26.8 (testing/synctest); scratch module keeps go 1.18"
	if postCoverage != nil {
		for k, v := range postCoverage {
			cov[k] = v
		}
	}
	cov["known_findings_hit"] = knownHit
	cov["violations_reported"] = reported
	if sc != nil && sc.gen != nil {
		inst := map[string]interface{}{}
		for p, st := range sc.gen {
			inst[p] = st
		}
		cov["instrumentation"] = inst
	}
	ev := map[string]interface{}{
		"property_id": sp.ID,
		"tier":        tier,
		"seed":        seed,
		"level":       sp.Level,
		"coverage":    cov,
		"assumptions": sp.Assumptions,
		"wall_s":      time.Since(start).Seconds(),
		"violations":  len(reported),
	}
	if os.Getenv("VERIF_NOEVIDENCE") != "" {
		return
	}
	os.MkdirAll(filepath.Join(verifDir, "evidence"), 0755)
	writeJSON(filepath.Join(verifDir, "evidence", sp.ID+".json"), ev)
}

// ---------------------------------------------------------------------------

func replayFile(path string) int {
	data, err := os.ReadFile(path)
	if err != nil {
		infra("%v", err)
	}
	var c caseT
	if err := json.Unmarshal(data, &c); err != nil {
		infra("%v", err)
	}
	sp := specs[c.Property]
	if sp == nil {
		infra("unknown property %q in replay file", c.Property)
	}
	if sp.Replay != nil {
		return sp.Replay(sp, path)
	}
	sc := prepare(sp)
	defer sc.cleanup()
	tier := c.Tier
	if tier == "" {
		tier = "quick"
	}
	rep, err := replayCase(sc, sp, tier, &c)
	if err != nil {
		infra("%v", err)
	}
	for _, l := range rep.Schedule {
		fmt.Println("  ", l)
	}
	if rep.Class == "" {
		fmt.Printf("replay of %s: no violation (event log hash %s, recorded %s)\n", path, rep.EventHash, c.EventHash)
		return 0
	}
	same := rep.Class == c.Class && rep.EventHash == c.EventHash
	fmt.Printf("REPRODUCED property=%s class=%q fingerprint=%q event_log_hash=%s identical_to_recorded=%v\n  %s\n", c.Property, rep.Class, rep.Fingerprint, rep.EventHash, same, indent(rep.Msg))
	for _, b := range rep.Blocked {
		fmt.Println("   blocked:", b)
	}
	return 1
}

// selftest checks the simulator itself:
//  1. pass-through equivalence: the instrumented concurrency packages, with no
//     simulation active (shims delegate to the real sync/atomic, yields are
//     no-ops), still pass the repository's own tests that use them;
//  2. determinism at scale: for every simulated check a seed range is executed
//     three times in fresh processes at GOMAXPROCS 1, 4 and 16 and the
//     per-run event-log hashes must be identical.
func selftest(ids []string) int {
	rc := 0
	// 1. pass-through
	pt := &spec{ID: "SELFTEST", TestPkg: "x/jsonrpc2/jsonrpc2test", TestName: "none",
		Instrument: map[string]simgen.Options{
			xgo + "/x/jsonrpc2": {Sync: true, Conc: true, Maps: true},
			xgo + "/x/fakenet":  {Sync: true, Conc: true, Maps: true},
			xgo + "/x/watcher":  {Sync: true, Conc: true, Maps: true},
		}}
	sc := prepare(pt)
	out, err := run(sc.repo, goEnv(), "go1.26.8", "test", "-vet=off", "-count=3", "./x/jsonrpc2/...", "./x/fakenet/...", "./x/watcher/...")
	sc.cleanup()
	if err != nil {
		fmt.Printf("selftest: pass-through FAILED: the instrumented packages do not pass their own tests\n%s\n", tail(out, 4000))
		rc = 2
	} else {
		fmt.Println("selftest: pass-through ok (instrumented x/jsonrpc2, x/fakenet, x/watcher pass go test -count=3 ./x/jsonrpc2/... with the simulation inactive)")
	}
	// 2. determinism
	if len(ids) == 0 {
		ids = []string{"C40", "C41", "C39", "C26", "C38", "C36", "C08"}
	}
	for _, id := range ids {
		sp := specs[strings.ToUpper(id)]
		if sp == nil {
			continue
		}
		sc := prepare(sp)
		n := 400
		if sp.ID == "C08" {
			n = 60
		}
		var ref []uint64
		ok := true
		for i, gmp := range []string{"1", "4", "16", "2"} {
			os.Setenv("VERIF_GOMAXPROCS", gmp)
			j := &job{Property: sp.ID, Mode: "gen", Tier: "quick", Seed: baseSeed(), From: 0, To: n, MaxSteps: sp.maxSteps("quick")}
			if _, err := worker(sc, sp, j, fmt.Sprintf("self%d", i), 15*time.Minute); err != nil {
				fmt.Printf("selftest: %s worker failed: %v\n", sp.ID, err)
				ok = false
				break
			}
			data, _ := os.ReadFile(j.Hashes)
			os.Remove(j.Hashes)
			var hs []uint64
			for k := 0; k+8 <= len(data); k += 8 {
				hs = append(hs, binary.LittleEndian.Uint64(data[k:]))
			}
			if i == 0 {
				ref = hs
				continue
			}
			if len(hs) != len(ref) {
				ok = false
			}
			for k := range hs {
				if k < len(ref) && hs[k] != ref[k] {
					ok = false
				}
			}
		}
		os.Unsetenv("VERIF_GOMAXPROCS")
		sc.cleanup()
		if ok {
			fmt.Printf("selftest: %s deterministic: %d runs x 4 processes (GOMAXPROCS 1/4/16/2) gave identical event-log hashes (%d non-trivial)\n", sp.ID, n, len(ref))
		} else {
			fmt.Printf("selftest: %s NOT deterministic\n", sp.ID)
			rc = 2
		}
	}
	return rc
}

// fatalInCode recognises, in a dead worker's output, an unrecoverable runtime
// error raised while the code under test was running: the error must be one a
// program cannot recover from and cannot blame on its environment's scheduling
// (out of memory on an allocation it asked for, stack overflow), and the
// innermost non-runtime frame of the goroutine that died must belong to the
// repository's own non-test code (not the harness, not the simulator).
// "all goroutines are asleep", watchdog kills, build trouble etc. stay
// infrastructure trouble.
func fatalInCode(err error) (what, frame string) {
	if err == nil {
		return "", ""
	}
	s := err.Error()
	for _, w := range []string{"fatal error: runtime: out of memory", "fatal error: stack overflow", "runtime: goroutine stack exceeds"} {
		if strings.Contains(s, w) {
			what = strings.TrimPrefix(w, "fatal error: ")
			break
		}
	}
	if what == "" {
		return "", ""
	}
	i := strings.Index(s, "goroutine ")
	if i < 0 {
		return "", ""
	}
	lines := strings.Split(s[i:], "\n")
	for k := 1; k+1 < len(lines); k++ {
		l := strings.TrimSpace(lines[k])
		if l == "" {
			break // end of the first (dying) goroutine's stack
		}
		if strings.HasPrefix(l, "/") || strings.HasPrefix(l, "runtime.") || strings.HasPrefix(l, "runtime/") || strings.HasPrefix(l, "created by") {
			continue
		}
		// first non-runtime frame: it decides
		file := strings.TrimSpace(lines[k+1])
		if strings.HasPrefix(l, xgo+"/") && !strings.Contains(l, "/zsim/") && !strings.Contains(file, "_test.go") {
			if p := strings.IndexByte(l, '('); p > 0 {
				l = l[:strings.LastIndexByte(l[:len(l)], '(')]
			}
			return what, l
		}
		return "", ""
	}
	return "", ""
}

// localiseFatal finds, by bisection over the seed range of the chunk whose
// worker died, the single run that brings a fresh process down, and confirms it
// twice. Returns nil when the death is not attributable to the code under test
// or does not reproduce (then it is infrastructure trouble: exit 2).
func localiseFatal(sc *scratch, sp *spec, tier string, seed uint64, t *totals) *caseT {
	if what, _ := fatalInCode(t.workerErr); what == "" || t.failTo <= t.failFrom {
		return nil
	}
	dies := func(from, to int) (string, string) {
		j := &job{Property: sp.ID, Mode: "gen", Tier: tier, Seed: seed, From: from, To: to, MaxSteps: sp.maxSteps(tier), Knobs: envKnobs()}
		_, err := worker(sc, sp, j, fmt.Sprintf("fatal-%d-%d", from, to), 20*time.Minute)
		return fatalInCode(err)
	}
	from, to := t.failFrom, t.failTo
	for to-from > 1 {
		mid := (from + to) / 2
		if w, _ := dies(from, mid); w != "" {
			to = mid
		} else {
			from = mid
		}
	}
	w1, f1 := dies(from, to)
	w2, f2 := dies(from, to)
	if w1 == "" || w1 != w2 || f1 != f2 {
		return nil
	}
	return &caseT{Property: sp.ID, Engine: "simrt", Seed: seed, BaseSeed: seed, Index: from, Tier: tier, Knobs: envKnobs(), MaxSteps: sp.maxSteps(tier), Fatal: true,
		Class: "fatal-error", Fingerprint: "fatal-error " + w1 + " in " + f1, EventHash: "fatal:" + w1,
		Msg: "the process died with the unrecoverable runtime error \"" + w1 + "\" in " + f1 + " (run " + fmt.Sprint(from) + " of the seed range, alone in a fresh process)"}
}
