// Package simgen instruments a scratch copy of packages of the code under test
// so that every source of nondeterminism the checks care about goes through
// the simulation runtime (simrt). It never touches /repo.
//
// It refuses (returns an error naming file:line) when it meets a construct it
// does not know how to rewrite faithfully; the driver reports that as
// infrastructure trouble (exit 2), never as a verdict.
package simgen

import (
	"bytes"
	"encoding/json"
	"fmt"
	"go/ast"
	"go/format"
	"go/importer"
	"go/parser"
	"go/token"
	"go/types"
	"io"
	"os"
	"os/exec"
	"path/filepath"
	"sort"
	"strconv"
	"strings"
)

// Options selects the rewrites applied to one package.
type Options struct {
	Sync   bool              // swap "sync" and "sync/atomic" for the simulated ones
	Conc   bool              // go statements, channel operations, select
	Maps   bool              // range over map through detmap
	Swap   map[string]string // extra import swaps, e.g. "os" -> ".../simos"
	Files  []string          // restrict to these base names (empty: all non-test files)
	ModDir string            // module root directory the package lives in (default: the tree root)
	ModPth string            // module path of ModDir (default: the root module path)
}

// Stats reports what was rewritten.
type Stats struct {
	Files          int
	GoStmts        int
	ChanOps        int
	Selects        int
	PollSelects    int
	MapRanges      int
	MapRangesUnord []string // sites whose key type has no canonical order
	Closes         int
	ImportSwaps    int
	Reinits        int // package-level channels / sync objects re-made at the start of every run
	TimeCalls      []string // uses of package time that create timers/clock reads (not owned)
}

const (
	RootMod   = "github.com/goplus/xgo"
	SimrtPath = RootMod + "/zsim/simrt"
	SsyncPath = RootMod + "/zsim/simrt/ssync"
	SatomPath = RootMod + "/zsim/simrt/satomic"
	DetmapPth = RootMod + "/zsim/simrt/detmap"
	SimosPath = RootMod + "/zsim/simrt/simos"
)

type listPkg struct {
	ImportPath string
	Dir        string
	Export     string
	GoFiles    []string
	Standard   bool
	Error      *struct{ Err string }
}

// Gen is an instrumentation session over one scratch tree.
type Gen struct {
	Root    string // scratch copy of the repository
	GoBin   string // go command to use (go1.26.8)
	Env     []string
	exports map[string]string
	Log     io.Writer
}

func (g *Gen) logf(format string, a ...interface{}) {
	if g.Log != nil {
		fmt.Fprintf(g.Log, format+"\n", a...)
	}
}

// load runs `go list -export -deps` for the packages in dir.
func (g *Gen) load(modDir string, pkgs []string) (map[string]*listPkg, error) {
	args := append([]string{"list", "-export", "-deps", "-json=ImportPath,Dir,Export,GoFiles,Standard,Error"}, pkgs...)
	cmd := exec.Command(g.GoBin, args...)
	cmd.Dir = modDir
	cmd.Env = g.Env
	var stderr bytes.Buffer
	cmd.Stderr = &stderr
	out, err := cmd.Output()
	if err != nil {
		return nil, fmt.Errorf("go list failed: %v\n%s", err, stderr.String())
	}
	res := map[string]*listPkg{}
	dec := json.NewDecoder(bytes.NewReader(out))
	for dec.More() {
		var p listPkg
		if err := dec.Decode(&p); err != nil {
			return nil, err
		}
		if p.Error != nil {
			return nil, fmt.Errorf("go list: %s: %s", p.ImportPath, p.Error.Err)
		}
		pp := p
		res[p.ImportPath] = &pp
	}
	return res, nil
}

// Instrument rewrites the packages (import path -> options) in place in the
// scratch tree. All packages must belong to the module rooted at modDir.
func (g *Gen) Instrument(modDir string, pkgs map[string]Options) (map[string]*Stats, error) {
	var paths []string
	for p := range pkgs {
		paths = append(paths, p)
	}
	sort.Strings(paths)
	listed, err := g.load(modDir, paths)
	if err != nil {
		return nil, err
	}
	fset := token.NewFileSet()
	imp := importer.ForCompiler(fset, "gc", func(path string) (io.ReadCloser, error) {
		p := listed[path]
		if p == nil || p.Export == "" {
			return nil, fmt.Errorf("no export data for %q", path)
		}
		return os.Open(p.Export)
	})
	out := map[string]*Stats{}
	type pending struct {
		name string
		data []byte
	}
	var writes []pending
	for _, ip := range paths {
		lp := listed[ip]
		if lp == nil {
			return nil, fmt.Errorf("package %s not listed", ip)
		}
		opt := pkgs[ip]
		var files []*ast.File
		var names []string
		for _, fn := range lp.GoFiles {
			full := filepath.Join(lp.Dir, fn)
			f, err := parser.ParseFile(fset, full, nil, parser.ParseComments)
			if err != nil {
				return nil, err
			}
			files = append(files, f)
			names = append(names, full)
		}
		info := &types.Info{Types: map[ast.Expr]types.TypeAndValue{}, Uses: map[*ast.Ident]types.Object{}, Defs: map[*ast.Ident]types.Object{}}
		conf := types.Config{Importer: imp, Error: func(err error) {}}
		if _, err := conf.Check(ip, fset, files, info); err != nil {
			return nil, fmt.Errorf("type-checking %s: %v", ip, err)
		}
		st := &Stats{}
		out[ip] = st
		for i, f := range files {
			base := filepath.Base(names[i])
			if len(opt.Files) > 0 && !contains(opt.Files, base) {
				continue
			}
			rw := &rewriter{fset: fset, info: info, opt: opt, st: st, file: f, base: relSite(g.Root, names[i])}
			if err := rw.rewriteFile(); err != nil {
				return nil, err
			}
			if !rw.changed {
				continue
			}
			st.Files++
			keepHeaderComments(f)
			var buf bytes.Buffer
			if err := format.Node(&buf, fset, f); err != nil {
				return nil, fmt.Errorf("printing %s: %v", names[i], err)
			}
			writes = append(writes, pending{names[i], buf.Bytes()})
		}
	}
	for _, w := range writes {
		if err := os.WriteFile(w.name, w.data, 0644); err != nil {
			return nil, err
		}
	}
	return out, nil
}

func relSite(root, full string) string {
	if r, err := filepath.Rel(root, full); err == nil {
		return filepath.ToSlash(r)
	}
	return full
}

func contains(l []string, s string) bool {
	for _, x := range l {
		if x == s {
			return true
		}
	}
	return false
}

// keepHeaderComments drops every comment except those ahead of the package
// clause (build constraints, licence) and compiler directives: printing a
// restructured tree with the original free-floating comments can misplace
// them.
func keepHeaderComments(f *ast.File) {
	var keep []*ast.CommentGroup
	for _, cg := range f.Comments {
		if cg.End() < f.Package {
			keep = append(keep, cg)
			continue
		}
		for _, c := range cg.List {
			if strings.HasPrefix(c.Text, "//go:") {
				keep = append(keep, &ast.CommentGroup{List: []*ast.Comment{c}})
			}
		}
	}
	f.Comments = keep
	ast.Inspect(f, func(n ast.Node) bool {
		switch x := n.(type) {
		case *ast.FuncDecl:
			x.Doc = onlyDirectives(x.Doc)
		case *ast.GenDecl:
			x.Doc = onlyDirectives(x.Doc)
		case *ast.Field:
			x.Doc, x.Comment = nil, nil
		case *ast.ValueSpec:
			x.Doc, x.Comment = nil, nil
		case *ast.TypeSpec:
			x.Doc, x.Comment = nil, nil
		case *ast.ImportSpec:
			x.Doc, x.Comment = nil, nil
		}
		return true
	})
	if f.Doc != nil && f.Doc.End() >= f.Package {
		f.Doc = nil
	}
}

func onlyDirectives(cg *ast.CommentGroup) *ast.CommentGroup {
	if cg == nil {
		return nil
	}
	var l []*ast.Comment
	for _, c := range cg.List {
		if strings.HasPrefix(c.Text, "//go:") {
			l = append(l, c)
		}
	}
	if len(l) == 0 {
		return nil
	}
	return &ast.CommentGroup{List: l}
}

// ---------------------------------------------------------------------------

type rewriter struct {
	fset    *token.FileSet
	info    *types.Info
	opt     Options
	st      *Stats
	file    *ast.File
	base    string
	changed bool
	needRT  bool
	needDM  bool
	nvar    int
}

const (
	rtName = "zsimrt"
	dmName = "zdetmap"
)

func (r *rewriter) site(pos token.Pos) string {
	p := r.fset.Position(pos)
	return fmt.Sprintf("%s:%d", r.base, p.Line)
}

func (r *rewriter) errf(pos token.Pos, format string, a ...interface{}) error {
	return fmt.Errorf("simgen: unsupported construct at %s: %s", r.site(pos), fmt.Sprintf(format, a...))
}

func (r *rewriter) fresh(prefix string) *ast.Ident {
	r.nvar++
	return ast.NewIdent(fmt.Sprintf("_z%s%d", prefix, r.nvar))
}

func strLit(s string) *ast.BasicLit {
	return &ast.BasicLit{Kind: token.STRING, Value: strconv.Quote(s)}
}

func intLit(i int) *ast.BasicLit {
	return &ast.BasicLit{Kind: token.INT, Value: strconv.Itoa(i)}
}

func rt(name string) ast.Expr {
	return &ast.SelectorExpr{X: ast.NewIdent(rtName), Sel: ast.NewIdent(name)}
}

func call(fun ast.Expr, args ...ast.Expr) *ast.CallExpr {
	return &ast.CallExpr{Fun: fun, Args: args}
}

func (r *rewriter) rewriteFile() error {
	// import swaps
	swaps := map[string][2]string{}
	if r.opt.Sync {
		swaps["sync"] = [2]string{SsyncPath, "sync"}
		swaps["sync/atomic"] = [2]string{SatomPath, "atomic"}
	}
	for from, to := range r.opt.Swap {
		swaps[from] = [2]string{to, filepath.Base(from)}
	}
	for _, is := range r.file.Imports {
		p, _ := strconv.Unquote(is.Path.Value)
		if sw, ok := swaps[p]; ok {
			is.Path = strLit(sw[0])
			is.Path.ValuePos = token.NoPos
			if is.Name == nil {
				is.Name = ast.NewIdent(sw[1])
			}
			r.changed = true
			r.st.ImportSwaps++
		}
		if p == "time" {
			r.noteTimeUses()
		}
	}
	if r.opt.Conc || r.opt.Maps {
		for _, d := range r.file.Decls {
			fd, ok := d.(*ast.FuncDecl)
			if !ok {
				// function literals in package-level var initialisers
				var err error
				ast.Inspect(d, func(n ast.Node) bool {
					if fl, ok := n.(*ast.FuncLit); ok && err == nil {
						err = r.block(fl.Body)
						return false
					}
					return true
				})
				if err != nil {
					return err
				}
				continue
			}
			if fd.Body != nil {
				if err := r.block(fd.Body); err != nil {
					return err
				}
			}
		}
	}
	if r.opt.Conc || r.opt.Sync {
		r.reinitPackageLevel()
	}
	if r.needRT {
		r.addImport(rtName, SimrtPath)
	}
	if r.needDM {
		r.addImport(dmName, DetmapPth)
	}
	return nil
}

// reinitPackageLevel makes package-level channels and synchronisation objects
// per-run: a channel made by a package-level initialiser exists before any
// simulation starts — outside the testing/synctest bubble, where blocking on it
// is not "durable" and the scheduler would never regain control — and a
// package-level Mutex or WaitGroup would carry a dead run's state into the next
// one. For every such variable an init function registers a re-initialisation
// that the simulator runs at the start of each run, inside the bubble.
func (r *rewriter) reinitPackageLevel() {
	var stmts []ast.Stmt
	for _, d := range r.file.Decls {
		gd, ok := d.(*ast.GenDecl)
		if !ok || gd.Tok != token.VAR {
			continue
		}
		for _, sp := range gd.Specs {
			vs := sp.(*ast.ValueSpec)
			if len(vs.Names) == 1 && len(vs.Values) == 1 && vs.Names[0].Name != "_" {
				if c, ok := vs.Values[0].(*ast.CallExpr); ok && len(c.Args) >= 1 {
					if id, ok := c.Fun.(*ast.Ident); ok && id.Name == "make" {
						if _, ok := c.Args[0].(*ast.ChanType); ok {
							stmts = append(stmts, &ast.AssignStmt{Lhs: []ast.Expr{ast.NewIdent(vs.Names[0].Name)}, Tok: token.ASSIGN, Rhs: []ast.Expr{vs.Values[0]}})
						}
					}
				}
			}
			if len(vs.Values) == 0 && vs.Type != nil && r.opt.Sync {
				if se, ok := vs.Type.(*ast.SelectorExpr); ok {
					if id, ok := se.X.(*ast.Ident); ok {
						if pn, ok := r.info.Uses[id].(*types.PkgName); ok && pn.Imported().Path() == "sync" {
							switch se.Sel.Name {
							case "Mutex", "RWMutex", "WaitGroup", "Once":
								for _, n := range vs.Names {
									stmts = append(stmts, &ast.AssignStmt{Lhs: []ast.Expr{ast.NewIdent(n.Name)}, Tok: token.ASSIGN,
										Rhs: []ast.Expr{&ast.CompositeLit{Type: &ast.SelectorExpr{X: ast.NewIdent(id.Name), Sel: ast.NewIdent(se.Sel.Name)}}}})
								}
							}
						}
					}
				}
			}
		}
	}
	if len(stmts) == 0 {
		return
	}
	r.st.Reinits += len(stmts)
	r.needRT, r.changed = true, true
	r.file.Decls = append(r.file.Decls, &ast.FuncDecl{
		Name: ast.NewIdent("init"),
		Type: &ast.FuncType{Params: &ast.FieldList{}},
		Body: &ast.BlockStmt{List: []ast.Stmt{&ast.ExprStmt{X: call(rt("OnRunStart"), &ast.FuncLit{Type: &ast.FuncType{Params: &ast.FieldList{}}, Body: &ast.BlockStmt{List: stmts}})}}},
	})
}

func (r *rewriter) noteTimeUses() {
	ast.Inspect(r.file, func(n ast.Node) bool {
		se, ok := n.(*ast.SelectorExpr)
		if !ok {
			return true
		}
		id, ok := se.X.(*ast.Ident)
		if !ok {
			return true
		}
		if pn, ok := r.info.Uses[id].(*types.PkgName); ok && pn.Imported().Path() == "time" {
			switch se.Sel.Name {
			case "Now", "Sleep", "After", "AfterFunc", "NewTimer", "NewTicker", "Tick", "Since", "Until":
				r.st.TimeCalls = append(r.st.TimeCalls, r.site(se.Pos())+" time."+se.Sel.Name)
			}
		}
		return true
	})
}

func (r *rewriter) addImport(name, path string) {
	spec := &ast.ImportSpec{Name: ast.NewIdent(name), Path: strLit(path)}
	for _, d := range r.file.Decls {
		if gd, ok := d.(*ast.GenDecl); ok && gd.Tok == token.IMPORT {
			gd.Specs = append(gd.Specs, spec)
			if !gd.Lparen.IsValid() {
				gd.Lparen = gd.Pos()
				gd.Rparen = gd.End()
			}
			r.file.Imports = append(r.file.Imports, spec)
			return
		}
	}
	gd := &ast.GenDecl{Tok: token.IMPORT, Specs: []ast.Spec{spec}}
	r.file.Decls = append([]ast.Decl{gd}, r.file.Decls...)
	r.file.Imports = append(r.file.Imports, spec)
}

// block rewrites the statements of a block and everything nested in it.
func (r *rewriter) block(b *ast.BlockStmt) error {
	if b == nil {
		return nil
	}
	l, err := r.stmts(b.List)
	if err != nil {
		return err
	}
	b.List = l
	return nil
}

func (r *rewriter) stmts(list []ast.Stmt) ([]ast.Stmt, error) {
	var out []ast.Stmt
	for _, s := range list {
		repl, err := r.stmt(s)
		if err != nil {
			return nil, err
		}
		out = append(out, repl...)
	}
	return out, nil
}

// funcLits rewrites the bodies of function literals directly inside n (not
// crossing into nested statements that are handled by stmt itself).
func (r *rewriter) funcLits(n ast.Node) error {
	var err error
	ast.Inspect(n, func(x ast.Node) bool {
		if err != nil {
			return false
		}
		if fl, ok := x.(*ast.FuncLit); ok {
			err = r.block(fl.Body)
			return false
		}
		return true
	})
	return err
}

// chanOpIn reports a channel receive expression directly in n (function
// literals excluded).
func chanOpIn(n ast.Node) (pos token.Pos, found bool) {
	if n == nil {
		return
	}
	ast.Inspect(n, func(x ast.Node) bool {
		if found {
			return false
		}
		switch e := x.(type) {
		case *ast.FuncLit:
			return false
		case *ast.UnaryExpr:
			if e.Op == token.ARROW {
				pos, found = e.Pos(), true
				return false
			}
		}
		return true
	})
	return
}

func (r *rewriter) isBuiltin(fun ast.Expr, name string) bool {
	id, ok := fun.(*ast.Ident)
	if !ok || id.Name != name {
		return false
	}
	_, isB := r.info.Uses[id].(*types.Builtin)
	return isB
}

// closeCalls rewrites close(ch) calls that are the call of an expression,
// defer or go statement into zsimrt.Close(site, ch).
func (r *rewriter) closeCall(c *ast.CallExpr) bool {
	if r.isBuiltin(c.Fun, "close") && len(c.Args) == 1 {
		c.Args = []ast.Expr{strLit(r.site(c.Pos())), c.Args[0]}
		c.Fun = rt("Close")
		r.needRT, r.changed = true, true
		r.st.Closes++
		return true
	}
	return false
}

func (r *rewriter) bracket(s ast.Stmt, pos token.Pos) []ast.Stmt {
	tok := r.fresh("t")
	r.needRT, r.changed = true, true
	r.st.ChanOps++
	before := &ast.AssignStmt{Lhs: []ast.Expr{tok}, Tok: token.DEFINE, Rhs: []ast.Expr{call(rt("Before"), strLit(r.site(pos)))}}
	after := &ast.ExprStmt{X: call(rt("After"), ast.NewIdent(tok.Name))}
	return []ast.Stmt{before, s, after}
}

func (r *rewriter) stmt(s ast.Stmt) ([]ast.Stmt, error) {
	one := []ast.Stmt{s}
	switch x := s.(type) {
	case nil:
		return nil, nil
	case *ast.BlockStmt:
		return one, r.block(x)
	case *ast.LabeledStmt:
		repl, err := r.stmt(x.Stmt)
		if err != nil {
			return nil, err
		}
		if len(repl) == 1 {
			x.Stmt = repl[0]
			return one, nil
		}
		// bracketed statement: keep the label on the statement itself
		for i, st := range repl {
			if st == x.Stmt {
				x.Stmt = st
				repl[i] = x
				return repl, nil
			}
		}
		return nil, r.errf(x.Pos(), "labelled statement rewritten to a different statement")
	case *ast.IfStmt:
		if p, ok := chanOpIn(x.Init); ok && r.opt.Conc {
			return nil, r.errf(p, "channel receive in if-statement header")
		}
		if p, ok := chanOpIn(x.Cond); ok && r.opt.Conc {
			return nil, r.errf(p, "channel receive in if-statement header")
		}
		if err := r.headerLits(x.Init, x.Cond); err != nil {
			return nil, err
		}
		if err := r.block(x.Body); err != nil {
			return nil, err
		}
		if x.Else != nil {
			repl, err := r.stmt(x.Else)
			if err != nil {
				return nil, err
			}
			if len(repl) != 1 {
				return nil, r.errf(x.Else.Pos(), "else branch needs bracketing")
			}
			x.Else = repl[0]
		}
		return one, nil
	case *ast.ForStmt:
		for _, h := range []ast.Node{x.Init, x.Cond, x.Post} {
			if h == nil || isNilNode(h) {
				continue
			}
			if p, ok := chanOpIn(h); ok && r.opt.Conc {
				return nil, r.errf(p, "channel receive in for-statement header")
			}
		}
		if err := r.headerLits(x.Init, x.Cond, x.Post); err != nil {
			return nil, err
		}
		return one, r.block(x.Body)
	case *ast.RangeStmt:
		if p, ok := chanOpIn(x.X); ok && r.opt.Conc {
			return nil, r.errf(p, "channel receive in range expression")
		}
		if err := r.headerLits(x.X); err != nil {
			return nil, err
		}
		if err := r.block(x.Body); err != nil {
			return nil, err
		}
		t := r.info.TypeOf(x.X)
		if t != nil {
			switch u := t.Underlying().(type) {
			case *types.Chan:
				if r.opt.Conc {
					return nil, r.errf(x.Pos(), "range over channel")
				}
			case *types.Map:
				if r.opt.Maps {
					r.rangeMap(x, u)
				}
			}
		}
		return one, nil
	case *ast.SwitchStmt:
		if p, ok := chanOpIn(x.Init); ok && r.opt.Conc {
			return nil, r.errf(p, "channel receive in switch header")
		}
		if p, ok := chanOpIn(x.Tag); ok && r.opt.Conc {
			return nil, r.errf(p, "channel receive in switch header")
		}
		if err := r.headerLits(x.Init, x.Tag); err != nil {
			return nil, err
		}
		return one, r.clauses(x.Body)
	case *ast.TypeSwitchStmt:
		if p, ok := chanOpIn(x.Init); ok && r.opt.Conc {
			return nil, r.errf(p, "channel receive in type-switch header")
		}
		if p, ok := chanOpIn(x.Assign); ok && r.opt.Conc {
			return nil, r.errf(p, "channel receive in type-switch header")
		}
		if err := r.headerLits(x.Init, x.Assign); err != nil {
			return nil, err
		}
		return one, r.clauses(x.Body)
	case *ast.SelectStmt:
		if !r.opt.Conc {
			return one, r.clauses(x.Body)
		}
		return r.selectStmt(x)
	case *ast.GoStmt:
		if err := r.funcLits(x.Call); err != nil {
			return nil, err
		}
		if !r.opt.Conc {
			return one, nil
		}
		if p, ok := chanOpIn(x.Call); ok {
			return nil, r.errf(p, "channel receive in go statement")
		}
		if r.closeCall(x.Call) {
			return one, nil
		}
		return one, r.goStmt(x)
	case *ast.DeferStmt:
		if err := r.funcLits(x.Call); err != nil {
			return nil, err
		}
		if !r.opt.Conc {
			return one, nil
		}
		if p, ok := chanOpIn(x.Call); ok {
			return nil, r.errf(p, "channel receive in defer statement")
		}
		r.closeCall(x.Call)
		return one, nil
	case *ast.ReturnStmt:
		if err := r.funcLits(x); err != nil {
			return nil, err
		}
		if p, ok := chanOpIn(x); ok && r.opt.Conc {
			return nil, r.errf(p, "channel receive in return statement")
		}
		return one, nil
	case *ast.SendStmt:
		if err := r.funcLits(x); err != nil {
			return nil, err
		}
		if !r.opt.Conc {
			return one, nil
		}
		return r.bracket(x, x.Pos()), nil
	case *ast.ExprStmt:
		if err := r.funcLits(x); err != nil {
			return nil, err
		}
		if !r.opt.Conc {
			return one, nil
		}
		if c, ok := x.X.(*ast.CallExpr); ok && r.closeCall(c) {
			return one, nil
		}
		if p, ok := chanOpIn(x); ok {
			return r.bracket(x, p), nil
		}
		return one, nil
	case *ast.AssignStmt, *ast.DeclStmt, *ast.IncDecStmt:
		if err := r.funcLits(x); err != nil {
			return nil, err
		}
		if !r.opt.Conc {
			return one, nil
		}
		if p, ok := chanOpIn(x); ok {
			return r.bracket(x, p), nil
		}
		return one, nil
	case *ast.BranchStmt, *ast.EmptyStmt:
		return one, nil
	}
	return nil, r.errf(s.Pos(), "statement of type %T", s)
}

func isNilNode(n ast.Node) bool {
	switch v := n.(type) {
	case ast.Stmt:
		return v == nil
	case ast.Expr:
		return v == nil
	}
	return false
}

func (r *rewriter) headerLits(ns ...ast.Node) error {
	for _, n := range ns {
		if n == nil {
			continue
		}
		switch v := n.(type) {
		case ast.Stmt:
			if v == nil {
				continue
			}
		case ast.Expr:
			if v == nil {
				continue
			}
		}
		if err := r.funcLits(n); err != nil {
			return err
		}
	}
	return nil
}

func (r *rewriter) clauses(b *ast.BlockStmt) error {
	for _, c := range b.List {
		switch cc := c.(type) {
		case *ast.CaseClause:
			for _, e := range cc.List {
				if p, ok := chanOpIn(e); ok && r.opt.Conc {
					return r.errf(p, "channel receive in case expression")
				}
				if err := r.funcLits(e); err != nil {
					return err
				}
			}
			l, err := r.stmts(cc.Body)
			if err != nil {
				return err
			}
			cc.Body = l
		case *ast.CommClause:
			l, err := r.stmts(cc.Body)
			if err != nil {
				return err
			}
			cc.Body = l
		}
	}
	return nil
}

// goStmt: go f(a, b) -> go zsimrt.W2(zsimrt.NewG(site), f)(a, b)
func (r *rewriter) goStmt(x *ast.GoStmt) error {
	c := x.Call
	tv, ok := r.info.Types[c.Fun]
	if !ok || tv.IsType() || tv.IsBuiltin() {
		return r.errf(x.Pos(), "go statement calling a builtin or conversion")
	}
	sig, ok := tv.Type.Underlying().(*types.Signature)
	if !ok {
		return r.errf(x.Pos(), "go statement with non-function callee")
	}
	if sig.Variadic() {
		return r.errf(x.Pos(), "go statement calling a variadic function")
	}
	np, nr := sig.Params().Len(), sig.Results().Len()
	if np != len(c.Args) {
		return r.errf(x.Pos(), "go statement with multi-value argument")
	}
	name := fmt.Sprintf("W%d", np)
	if nr == 1 {
		name += "R"
	}
	if np > 5 || nr > 1 || (nr == 1 && np > 4) {
		return r.errf(x.Pos(), "go statement with %d parameters and %d results", np, nr)
	}
	c.Fun = call(rt(name), call(rt("NewG"), strLit(r.site(x.Pos()))), c.Fun)
	r.needRT, r.changed = true, true
	r.st.GoStmts++
	return nil
}

// selectStmt rewrites a select statement so that the simulator decides among
// simultaneously ready clauses.
func (r *rewriter) selectStmt(x *ast.SelectStmt) ([]ast.Stmt, error) {
	var comms []*ast.CommClause
	var def *ast.CommClause
	for _, c := range x.Body.List {
		cc := c.(*ast.CommClause)
		l, err := r.stmts(cc.Body)
		if err != nil {
			return nil, err
		}
		cc.Body = l
		if cc.Comm == nil {
			def = cc
		} else {
			comms = append(comms, cc)
		}
	}
	r.needRT, r.changed = true, true
	if len(comms) == 0 {
		if def == nil {
			return nil, r.errf(x.Pos(), "empty select")
		}
		return []ast.Stmt{x}, nil
	}
	if len(comms) == 1 && def != nil {
		// A non-blocking poll: deterministic by itself; add a scheduling point.
		r.st.PollSelects++
		y := &ast.ExprStmt{X: call(rt("Yield"), strLit(r.site(x.Pos())))}
		return []ast.Stmt{y, x}, nil
	}
	r.st.Selects++
	site := r.site(x.Pos())
	sel := r.fresh("sel")
	kvar := r.fresh("k")
	var pre []ast.Stmt
	pre = append(pre, &ast.AssignStmt{Lhs: []ast.Expr{sel}, Tok: token.DEFINE, Rhs: []ast.Expr{call(rt("SelBegin"), strLit(site), intLit(len(comms)))}})
	type caseInfo struct {
		ch, slot, val *ast.Ident
		recv          bool
		lhs           []ast.Expr
		tok           token.Token
	}
	infos := make([]caseInfo, len(comms))
	for i, cc := range comms {
		ci := &infos[i]
		ci.ch = r.fresh("c")
		switch cm := cc.Comm.(type) {
		case *ast.SendStmt:
			if err := r.funcLits(cm); err != nil {
				return nil, err
			}
			if p, ok := chanOpIn(cm); ok {
				return nil, r.errf(p, "receive inside a select send clause")
			}
			ci.val = r.fresh("v")
			pre = append(pre, &ast.AssignStmt{Lhs: []ast.Expr{ci.ch}, Tok: token.DEFINE, Rhs: []ast.Expr{cm.Chan}})
			pre = append(pre, &ast.AssignStmt{Lhs: []ast.Expr{ci.val}, Tok: token.DEFINE, Rhs: []ast.Expr{call(rt("SendVal"), ast.NewIdent(ci.ch.Name), cm.Value)}})
		case *ast.ExprStmt:
			u, ok := cm.X.(*ast.UnaryExpr)
			if !ok || u.Op != token.ARROW {
				return nil, r.errf(cm.Pos(), "select clause is not a receive")
			}
			if err := r.funcLits(u.X); err != nil {
				return nil, err
			}
			ci.recv = true
			ci.slot = r.fresh("r")
			pre = append(pre, &ast.AssignStmt{Lhs: []ast.Expr{ci.ch}, Tok: token.DEFINE, Rhs: []ast.Expr{u.X}})
			pre = append(pre, &ast.AssignStmt{Lhs: []ast.Expr{ci.slot}, Tok: token.DEFINE, Rhs: []ast.Expr{call(rt("Slot"), ast.NewIdent(ci.ch.Name))}})
		case *ast.AssignStmt:
			if len(cm.Rhs) != 1 {
				return nil, r.errf(cm.Pos(), "select receive clause shape")
			}
			u, ok := cm.Rhs[0].(*ast.UnaryExpr)
			if !ok || u.Op != token.ARROW {
				return nil, r.errf(cm.Pos(), "select clause is not a receive")
			}
			if err := r.funcLits(u.X); err != nil {
				return nil, err
			}
			ci.recv = true
			ci.lhs, ci.tok = cm.Lhs, cm.Tok
			ci.slot = r.fresh("r")
			pre = append(pre, &ast.AssignStmt{Lhs: []ast.Expr{ci.ch}, Tok: token.DEFINE, Rhs: []ast.Expr{u.X}})
			pre = append(pre, &ast.AssignStmt{Lhs: []ast.Expr{ci.slot}, Tok: token.DEFINE, Rhs: []ast.Expr{call(rt("Slot"), ast.NewIdent(ci.ch.Name))}})
		default:
			return nil, r.errf(cc.Pos(), "select clause of type %T", cc.Comm)
		}
	}
	id := func(i *ast.Ident) *ast.Ident { return ast.NewIdent(i.Name) }
	setK := func(i int) ast.Stmt {
		return &ast.AssignStmt{Lhs: []ast.Expr{id(kvar)}, Tok: token.ASSIGN, Rhs: []ast.Expr{intLit(i)}}
	}
	// _k := -1
	pre = append(pre, &ast.AssignStmt{Lhs: []ast.Expr{kvar}, Tok: token.DEFINE, Rhs: []ast.Expr{&ast.UnaryExpr{Op: token.SUB, X: intLit(1)}}})
	// poll loop
	ivar := r.fresh("i")
	var pollCases []ast.Stmt
	for i := range comms {
		ci := &infos[i]
		var try ast.Expr
		if ci.recv {
			try = call(rt("TryRecv"), id(ci.slot), id(ci.ch))
		} else {
			try = call(rt("TrySend"), id(ci.ch), id(ci.val))
		}
		pollCases = append(pollCases, &ast.CaseClause{List: []ast.Expr{intLit(i)}, Body: []ast.Stmt{
			&ast.IfStmt{Cond: try, Body: &ast.BlockStmt{List: []ast.Stmt{setK(i)}}},
		}})
	}
	poll := &ast.RangeStmt{Key: ast.NewIdent("_"), Value: ivar, Tok: token.DEFINE,
		X: call(&ast.SelectorExpr{X: id(sel), Sel: ast.NewIdent("Order")}),
		Body: &ast.BlockStmt{List: []ast.Stmt{
			&ast.SwitchStmt{Tag: id(ivar), Body: &ast.BlockStmt{List: pollCases}},
			&ast.IfStmt{Cond: &ast.BinaryExpr{X: id(kvar), Op: token.GEQ, Y: intLit(0)}, Body: &ast.BlockStmt{List: []ast.Stmt{&ast.BranchStmt{Tok: token.BREAK}}}},
		}}}
	pre = append(pre, poll)
	// blocking fallback
	var fallback []ast.Stmt
	if def != nil {
		fallback = []ast.Stmt{setK(len(comms))}
	} else {
		var bl []ast.Stmt
		for i := range comms {
			ci := &infos[i]
			var comm ast.Stmt
			if ci.recv {
				comm = &ast.AssignStmt{
					Lhs: []ast.Expr{&ast.SelectorExpr{X: id(ci.slot), Sel: ast.NewIdent("V")}, &ast.SelectorExpr{X: id(ci.slot), Sel: ast.NewIdent("Ok")}},
					Tok: token.ASSIGN,
					Rhs: []ast.Expr{&ast.UnaryExpr{Op: token.ARROW, X: id(ci.ch)}}}
			} else {
				comm = &ast.SendStmt{Chan: id(ci.ch), Value: id(ci.val)}
			}
			bl = append(bl, &ast.CommClause{Comm: comm, Body: []ast.Stmt{setK(i)}})
		}
		fallback = []ast.Stmt{&ast.SelectStmt{Body: &ast.BlockStmt{List: bl}}}
	}
	pre = append(pre, &ast.IfStmt{Cond: &ast.BinaryExpr{X: id(kvar), Op: token.LSS, Y: intLit(0)}, Body: &ast.BlockStmt{List: fallback}})
	pre = append(pre, &ast.ExprStmt{X: call(&ast.SelectorExpr{X: id(sel), Sel: ast.NewIdent("End")})})
	// dispatch
	var disp []ast.Stmt
	for i, cc := range comms {
		ci := &infos[i]
		body := cc.Body
		if len(ci.lhs) > 0 {
			rhs := []ast.Expr{&ast.SelectorExpr{X: id(ci.slot), Sel: ast.NewIdent("V")}}
			if len(ci.lhs) == 2 {
				rhs = append(rhs, &ast.SelectorExpr{X: id(ci.slot), Sel: ast.NewIdent("Ok")})
			}
			asg := &ast.AssignStmt{Lhs: ci.lhs, Tok: ci.tok, Rhs: rhs}
			body = append([]ast.Stmt{asg}, body...)
		}
		disp = append(disp, &ast.CaseClause{List: []ast.Expr{intLit(i)}, Body: body})
	}
	if def != nil {
		disp = append(disp, &ast.CaseClause{List: []ast.Expr{intLit(len(comms))}, Body: def.Body})
	}
	// keep the statement terminating when every clause of the select was
	disp = append(disp, &ast.CaseClause{Body: []ast.Stmt{&ast.ExprStmt{X: call(ast.NewIdent("panic"), strLit("zsim: unreachable select clause"))}}})
	pre = append(pre, &ast.SwitchStmt{Tag: id(kvar), Body: &ast.BlockStmt{List: disp}})
	return []ast.Stmt{&ast.BlockStmt{List: pre}}, nil
}

// rangeMap rewrites `for k, v := range m { body }` into an iteration over
// zdetmap.Iter(site, m), whose order the choice source decides.
func (r *rewriter) rangeMap(x *ast.RangeStmt, m *types.Map) {
	site := r.site(x.Pos())
	if !orderable(m.Key(), 0) {
		r.st.MapRangesUnord = append(r.st.MapRangesUnord, site+" key "+m.Key().String())
	}
	r.needDM, r.changed = true, true
	r.st.MapRanges++
	ev := r.fresh("e")
	var head []ast.Stmt
	head = append(head, &ast.IfStmt{
		Cond: &ast.UnaryExpr{Op: token.NOT, X: call(&ast.SelectorExpr{X: ast.NewIdent(ev.Name), Sel: ast.NewIdent("Live")})},
		Body: &ast.BlockStmt{List: []ast.Stmt{&ast.BranchStmt{Tok: token.CONTINUE}}}})
	var lhs, rhs []ast.Expr
	if x.Key != nil && !isBlank(x.Key) {
		lhs = append(lhs, x.Key)
		rhs = append(rhs, &ast.SelectorExpr{X: ast.NewIdent(ev.Name), Sel: ast.NewIdent("K")})
	}
	if x.Value != nil && !isBlank(x.Value) {
		lhs = append(lhs, x.Value)
		rhs = append(rhs, call(&ast.SelectorExpr{X: ast.NewIdent(ev.Name), Sel: ast.NewIdent("Val")}))
	}
	if len(lhs) > 0 {
		head = append(head, &ast.AssignStmt{Lhs: lhs, Tok: x.Tok, Rhs: rhs})
	}
	x.Key = ast.NewIdent("_")
	x.Value = ev
	x.Tok = token.DEFINE
	x.X = call(&ast.SelectorExpr{X: ast.NewIdent(dmName), Sel: ast.NewIdent("Iter")}, strLit(site), x.X)
	x.Body.List = append(head, x.Body.List...)
}

func isBlank(e ast.Expr) bool {
	id, ok := e.(*ast.Ident)
	return ok && id.Name == "_"
}

// orderable reports whether values of t have a canonical order that does not
// depend on addresses.
func orderable(t types.Type, depth int) bool {
	if depth > 6 {
		return false
	}
	switch u := t.Underlying().(type) {
	case *types.Basic:
		return u.Kind() != types.UnsafePointer
	case *types.Struct:
		for i := 0; i < u.NumFields(); i++ {
			if !orderable(u.Field(i).Type(), depth+1) {
				return false
			}
		}
		return true
	case *types.Array:
		return orderable(u.Elem(), depth+1)
	case *types.Interface:
		return true // decided at run time by the dynamic type
	}
	return false
}
