module verif.local

go 1.23
